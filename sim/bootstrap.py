"""Make `import finam` resolve to the working tree under test and silence it.

FINAM_SRC (default /repo/src) is put first on sys.path so the checks always run
the *current working tree*, also when a scratch copy is used for the
sensitivity self-test.  Nothing is built: finam is pure Python.
"""
import logging
import os
import sys
import types
import warnings

SRC = os.environ.get("FINAM_SRC", "/repo/src")
GUARD = "FINAM_VERIF_SIM"          # recorded in MANIFEST.hooks; no source hook uses it (yet)
os.environ.setdefault(GUARD, "1")

if SRC not in sys.path[:1]:
    sys.path.insert(0, SRC)

warnings.filterwarnings("ignore")

# src/finam/_version.py is git-ignored and may be absent after a fresh restore
if not os.path.exists(os.path.join(SRC, "finam", "_version.py")):
    _m = types.ModuleType("finam._version")
    _m.__version__ = "0.0.0+verif"
    sys.modules["finam._version"] = _m

import finam  # noqa: E402

assert os.path.realpath(finam.__file__).startswith(os.path.realpath(SRC)), (
    finam.__file__, SRC)

# finam logs errors through ErrorLogger even with print_log=False; keep stdout clean
logging.lastResort = None
logging.getLogger("FINAM").addHandler(logging.NullHandler())
logging.getLogger("FINAM").propagate = False
logging.disable(logging.CRITICAL)
