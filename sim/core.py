"""Core of the deterministic simulator: tape PRNG, batch runner, shrinker,
replay files, known findings, evidence writer.

One integer decides everything: run i of a batch uses
``seed_i = VERIF_SEED * 1_000_003 + i``; every choice of a run is drawn through
``Tape.draw``.  A scenario is ``G(tape)`` (JSON serialisable); execution is a
pure function of the scenario and the code under test.
"""
import hashlib
import importlib
import json
import copy
import os
import random
import signal
import subprocess
import sys
import time
import traceback
from concurrent.futures import ProcessPoolExecutor, as_completed
from fractions import Fraction
import multiprocessing as mp

ROOT = os.path.dirname(os.path.dirname(os.path.abspath(__file__)))
SEED_MULT = 1_000_003


# --------------------------------------------------------------------------- tape
class Tape:
    """Recorded sequence of small integers.  With ``prefix`` the recorded values
    are replayed (modulo the requested range); beyond the prefix the PRNG is used
    if a seed was given, otherwise zeros (used by the shrinker)."""

    def __init__(self, seed=None, prefix=None):
        self.rng = random.Random(seed) if seed is not None else None
        self.prefix = list(prefix) if prefix is not None else []
        self.rec = []

    def draw(self, n):
        """integer in [0, n)"""
        if n <= 1:
            v = 0
        else:
            i = len(self.rec)
            if i < len(self.prefix):
                v = self.prefix[i] % n
            elif self.rng is not None:
                v = self.rng.randrange(n)
            else:
                v = 0
        self.rec.append(v)
        return v

    # convenience -------------------------------------------------------------
    def chance(self, num, den):
        """True with probability num/den.  0 on the tape means False (shrinks to 'no')."""
        return self.draw(den) >= den - num

    def choice(self, seq):
        return seq[self.draw(len(seq))]

    def weighted(self, pairs):
        """pairs: [(item, weight)]; first item is the one a zero tape picks."""
        total = sum(w for _, w in pairs)
        x = self.draw(total)
        for item, w in pairs:
            if x < w:
                return item
            x -= w
        return pairs[-1][0]

    def rng_int(self, lo, hi):
        """integer in [lo, hi]"""
        return lo + self.draw(hi - lo + 1)

    def shuffle(self, seq):
        seq = list(seq)
        for i in range(len(seq) - 1, 0, -1):
            j = self.draw(i + 1)
            # 0 on tape -> keep identity for shrinking friendliness
            j = i - j
            seq[i], seq[j] = seq[j], seq[i]
        return seq


# --------------------------------------------------------------------- json helpers
def jdefault(o):
    if isinstance(o, Fraction):
        return {"__frac__": [o.numerator, o.denominator]}
    if isinstance(o, (set, frozenset)):
        return sorted(o)
    if isinstance(o, tuple):
        return list(o)
    try:
        import numpy as np
        if isinstance(o, np.integer):
            return int(o)
        if isinstance(o, np.floating):
            return float(o)
        if isinstance(o, np.bool_):
            return bool(o)
        if isinstance(o, np.ndarray):
            return o.tolist()
    except Exception:  # pragma: no cover
        pass
    return repr(o)


def jhook(d):
    if "__frac__" in d and len(d) == 1:
        return Fraction(d["__frac__"][0], d["__frac__"][1])
    return d


def dumps(obj, **kw):
    return json.dumps(obj, default=jdefault, sort_keys=True, **kw)


def loads(s):
    return json.loads(s, object_hook=jhook)


def digest_of(obj):
    return hashlib.sha256(dumps(obj).encode()).hexdigest()[:16]


# ----------------------------------------------------------------------- exceptions
class BudgetExceeded(BaseException):
    """Deterministic budget (updates, connect calls) exhausted: the run does not
    terminate within the analytic bound.  BaseException so that no handler inside
    the code under test can swallow it."""


class WallHang(BaseException):
    """Wall-clock watchdog fired inside one simulated run."""


class HarnessError(Exception):
    """The simulator itself is inconsistent (model disagrees with itself, scenario
    invalid).  Never reported as a property violation."""


_WATCH = {"cpu0": 0.0, "need": 0.0, "rearm": 0, "interval": 0}


def _arm(seconds):
    """arm the watchdog: it fires after `seconds` of wall time, but on a starved machine (other batches, test
    suites, sub-agents competing for the cores) a run is only declared hung once it has also burnt 60 % of that
    time as CPU time of its own - the code under test is single-threaded and does no blocking I/O, so a hang is
    always a busy loop.  At most 20 extensions, then the run counts as hung in any case."""
    _WATCH.update(cpu0=time.process_time(), need=0.6 * seconds, rearm=0, interval=seconds)
    signal.alarm(seconds)


def _alarm_handler(signum, frame):  # pragma: no cover
    if time.process_time() - _WATCH["cpu0"] < _WATCH["need"] and _WATCH["rearm"] < 20:
        _WATCH["rearm"] += 1
        signal.alarm(_WATCH["interval"])
        return
    raise WallHang("wall-clock watchdog")


RUN_WALL_S = int(os.environ.get("VERIF_RUN_WALL", "120"))


def guarded_generate(mod, tape, tier):
    """generate under the wall-clock watchdog (a generator looping on a zero tape must not hang the batch)"""
    old = signal.signal(signal.SIGALRM, _alarm_handler)
    _arm(20)
    try:
        sc = mod.generate(tape, tier)
        if isinstance(sc, dict) and tape.chance(1, 10):
            # the same scenario is built and judged a second time in the same process (fresh objects): what the first
            # build left behind in module- or class-level state must not change the outcome
            sc["again"] = True
        if isinstance(sc, dict) and tape.chance(1, 4):
            # another time base: what a tick is in real time (sim/timebase.py) - minutes, seconds, microseconds, days -
            # and a start that is not midnight; the scenario in ticks is unchanged
            sc["timebase"] = [tape.choice([1_000_001, 16_667, 277, 24_000_000, 1, 999_999]),
                              tape.choice([0, 45_296_789_123, 1])]
        if isinstance(sc, dict) and not sc.get("again") and tape.chance(1, 10):
            # another scenario of the same family is built and run first in the same process (its verdict is not
            # used here): caches, counters, registries and defaults it leaves behind must not change this one's outcome
            sc["prelude"] = mod.generate(Tape(seed=10_000_019 + tape.draw(1_000_000)), tier)
        return sc
    except WallHang:
        raise HarnessError("scenario generator did not terminate within 20 s")
    finally:
        signal.alarm(0)
        signal.signal(signal.SIGALRM, old)


def guarded_execute(mod, scenario):
    """Execute one scenario with a wall-clock watchdog.  Returns the result dict of
    the check module; harness problems are returned under key 'harness'."""
    old = signal.signal(signal.SIGALRM, _alarm_handler)
    _arm(RUN_WALL_S)
    from . import timebase
    try:
        timebase.set_base(*(scenario.get("timebase") or ()))
        if scenario.get("prelude"):
            try:
                mod.execute(copy.deepcopy(scenario["prelude"]))
            except WallHang:
                raise
            except Exception:      # noqa: BLE001   (judged when that scenario is drawn on its own)
                pass
        if scenario.get("again"):
            first = mod.execute(copy.deepcopy(scenario))
            res = mod.execute(copy.deepcopy(scenario))
            seen = {vkey(x) for x in first.get("violations", [])}
            extra = [dict(x, msg="second build of the same scenario in this process: " + str(x.get("msg", "")))
                     for x in res.get("violations", []) if vkey(x) not in seen]
            pr = dict(first.get("probes") or {})
            pr["scenarios_built_twice"] = 1
            pr["second_build_digest_differs"] = int(first.get("digest") != res.get("digest"))
            res = dict(first, violations=list(first.get("violations", [])) + extra, probes=pr)
        else:
            res = mod.execute(scenario)
        if scenario.get("prelude"):
            res["probes"] = dict(res.get("probes") or {}, scenarios_run_after_another=1)
        if scenario.get("timebase"):
            res["probes"] = dict(res.get("probes") or {}, scenarios_on_another_time_base=1)
    except WallHang:
        if getattr(mod, "HANG_IS_VIOLATION", False):
            res = {"violations": [{"oracle": "wall-hang", "kind": "hang",
                                   "msg": f"run did not return within {RUN_WALL_S}s wall"}],
                   "digest": "hang", "nontrivial": True}
        else:
            res = {"violations": [], "digest": "hang", "nontrivial": False,
                   "harness": "wall-clock watchdog fired"}
    except HarnessError as e:
        res = {"violations": [], "digest": "harness", "nontrivial": False,
               "harness": f"HarnessError: {e}"}
    except Exception as e:  # bug in the simulator
        res = {"violations": [], "digest": "harness", "nontrivial": False,
               "harness": "".join(traceback.format_exception(type(e), e, e.__traceback__))[-3000:]}
    finally:
        timebase.set_base()
        signal.alarm(0)
        signal.signal(signal.SIGALRM, old)
    res.setdefault("violations", [])
    res.setdefault("nontrivial", False)
    res.setdefault("digest", "")
    return res


def raised_in_finam(e):
    """True if the innermost frame of the exception's traceback is finam's own code (the code under test raised on
    input the harness believes valid) rather than the simulator's."""
    tb = e.__traceback__
    last = None
    while tb is not None:
        last = tb.tb_frame.f_code.co_filename
        tb = tb.tb_next
    return bool(last) and (os.sep + "finam" + os.sep) in last and (os.sep + "sim" + os.sep) not in last


def vkey(v):
    return (v["oracle"], v.get("kind", ""))


# ------------------------------------------------------------------- known findings
def load_known(prop):
    """Parse /verif/known_findings.txt.  Returns {sig: text} of *open* entries for prop."""
    path = os.path.join(ROOT, "known_findings.txt")
    out = {}
    if not os.path.exists(path):
        return out
    for line in open(path):
        line = line.strip()
        if not line or line.startswith("#"):
            continue
        if not line.startswith("open:"):
            continue  # 'fixed:' entries suppress nothing
        body = line[len("open:"):].strip()
        fields = dict(p.split("=", 1) for p in body.split()[:2] if "=" in p)
        if fields.get("property") != prop or "sig" not in fields:
            continue
        text = body.split(None, 2)[2] if len(body.split(None, 2)) > 2 else ""
        out[fields["sig"]] = text
    return out


# ------------------------------------------------------------------------- workers
def _load(modname):
    from . import bootstrap  # noqa: F401  (sys.path, logging)
    return importlib.import_module(f"sim.checks.{modname}")


_PROC_HISTORY = []      # seeds executed so far by this worker process, in order


def _rm_own_scratch():
    import shutil
    shutil.rmtree(os.path.join(os.environ.get("VERIF_SCRATCH", "/dev/shm"), f"finam-verif-{os.getpid()}"), ignore_errors=True)


import atexit  # noqa: E402
atexit.register(_rm_own_scratch)      # (the parent: shrinking and replays run there; workers clean up per chunk)


def _worker(modname, tier, seeds, want_samples):
    import faulthandler
    faulthandler.enable()
    mod = _load(modname)
    out = []
    for s in seeds:
        before = len(_PROC_HISTORY)
        _PROC_HISTORY.append(s)
        tape = Tape(seed=s)
        try:
            sc = guarded_generate(mod, tape, tier)
        except Exception as e:
            out.append({"seed": s, "harness": "generate: " + "".join(
                traceback.format_exception(type(e), e, e.__traceback__))[-2000:]})
            continue
        res = guarded_execute(mod, sc)
        rec = {"seed": s, "digest": res["digest"], "nontrivial": bool(res["nontrivial"]),
               "faults": res.get("faults", {}), "probes": res.get("probes", {}),
               "sim_hours": res.get("sim_hours", 0), "sig": res.get("sig", ""),
               "state_sigs": res.get("state_sigs", []),
               "nviol": len(res["violations"]), "cls": res.get("cls", "")}
        if res.get("harness"):
            rec["harness"] = res["harness"]
            rec["scenario"] = sc
        if res["violations"]:
            rec["violations"] = res["violations"]
            rec["scenario"] = sc
            rec["tape"] = tape.rec
            # what this process had executed before: a violation that depends on state left behind by earlier runs
            # (module-level caches, recycled ids) is replayed after the same history
            rec["history"] = list(_PROC_HISTORY[:before])
        elif want_samples and s in want_samples:
            rec["scenario"] = sc
            rec["outcome"] = res.get("outcome", "")
        out.append(rec)
    # the worker's scratch directory (spill files, written csv files) goes with the chunk; the next chunk recreates it
    import shutil
    shutil.rmtree(os.path.join(os.environ.get("VERIF_SCRATCH", "/dev/shm"), f"finam-verif-{os.getpid()}"), ignore_errors=True)
    return out


def _worker_agg(modname, tier, seeds, want_samples):
    """per-chunk aggregate (keeps IPC and the parent's memory small for million-run batches)"""
    recs = _worker(modname, tier, seeds, want_samples)
    agg = {"n": len(recs), "distinct": {}, "faults": {}, "probes": {}, "sigs": set(), "states": set(),
           "classes": {}, "sim_hours": 0, "special": [], "first": None}
    for r in recs:
        if agg["first"] is None:
            agg["first"] = {"seed": r["seed"], "digest": r.get("digest")}
        if r.get("nontrivial") and not r.get("harness"):
            agg["distinct"].setdefault(r["digest"], r["seed"])
        for k, n in r.get("faults", {}).items():
            agg["faults"][k] = agg["faults"].get(k, 0) + n
        for k, n in r.get("probes", {}).items():
            agg["probes"][k] = agg["probes"].get(k, 0) + n
        if r.get("sig"):
            agg["sigs"].add(r["sig"])
        agg["states"].update(r.get("state_sigs", []))
        if r.get("cls"):
            agg["classes"][r["cls"]] = agg["classes"].get(r["cls"], 0) + 1
        agg["sim_hours"] += r.get("sim_hours", 0)
        if r.get("harness") or r.get("violations") or "scenario" in r:
            agg["special"].append(r)
    return agg


# -------------------------------------------------------------------------- shrink
def shrink(mod, tier, tape_rec, key, budget=250, log=None, want_sig=None):
    """Reduce the tape while the same violation key reappears.  Returns
    (scenario, violations, tape) of the smallest failing case found."""
    def attempt(prefix):
        t = Tape(prefix=prefix)
        try:
            sc = guarded_generate(mod, t, tier)
        except Exception:
            return None
        res = guarded_execute(mod, sc)
        if res.get("harness"):
            return None
        vs = [v for v in res["violations"] if vkey(v) == key and
              (not hasattr(mod, "known_sig") or mod.known_sig(sc, v) == want_sig)]
        if not vs:
            return None
        return sc, res["violations"], t.rec

    best = attempt(tape_rec)
    if best is None:
        return None
    cur = list(best[2])
    used = 1
    improved = True
    while improved and used < budget:
        improved = False
        # 1. delete blocks (from the end towards the front)
        size = max(1, len(cur) // 2)
        while size >= 1 and used < budget:
            i = len(cur) - size
            while i >= 0 and used < budget:
                cand = cur[:i] + cur[i + size:]
                r = attempt(cand)
                used += 1
                if r is not None and len(r[2]) <= len(cur) and r[2] != cur:
                    best, cur = r, list(r[2])
                    improved = True
                i -= size
            size //= 2
        # 2. zero / halve entries
        for i in range(len(cur)):
            if used >= budget or i >= len(cur):
                break
            if cur[i] == 0:
                continue
            for nv in (0, cur[i] // 2, cur[i] - 1):
                if nv == cur[i] or nv < 0:
                    continue
                cand = cur[:i] + [nv] + cur[i + 1:]
                r = attempt(cand)
                used += 1
                if r is not None and sum(r[2]) < sum(cur):
                    best, cur = r, list(r[2])
                    improved = True
                    break
        # strip trailing zeros (equivalent tape)
        while cur and cur[-1] == 0:
            cur.pop()
    if log:
        log(f"shrink: {used} executions, tape {len(tape_rec)} -> {len(cur)}")
    return best


# ------------------------------------------------------------------------- batch
def run_batch(modname, tier, base_seed, runs=None, workers=None, wall_cap=None,
              quiet=False):
    t0 = time.time()
    mod = _load(modname)
    prop = mod.ID
    runs = runs or (mod.QUICK_RUNS if tier == "quick" else mod.THOROUGH_RUNS)
    runs = int(os.environ.get("VERIF_RUNS", runs))
    wall_cap = wall_cap or (getattr(mod, "QUICK_WALL", 150) if tier == "quick"
                            else getattr(mod, "THOROUGH_WALL", 900))
    wall_cap = float(os.environ.get("VERIF_WALL", wall_cap))
    workers = workers or int(os.environ.get("VERIF_WORKERS", min(16, os.cpu_count() or 1)))
    say = (lambda *a: None) if quiet else (lambda *a: print(*a, flush=True))
    say(f"VERIF_SEED={base_seed} property={prop} tier={tier} runs={runs} workers={workers}")

    seeds = [base_seed * SEED_MULT + i for i in range(runs)]
    chunk = max(1, min(getattr(mod, "CHUNK", 100), runs // (workers * 4) or 1))
    chunks = [seeds[i:i + chunk] for i in range(0, len(seeds), chunk)]
    want_samples = set(seeds[:3])
    n_runs = 0
    first = None
    special = []
    distinct, faults, probes, classes = {}, {}, {}, {}
    sigs, states = set(), set()
    sim_hours = 0
    stopped_early = False
    harness_errors = []
    ctx = mp.get_context("fork")

    def fold(agg):
        nonlocal n_runs, first, sim_hours
        n_runs += agg["n"]
        if agg["first"] is not None and (first is None or agg["first"]["seed"] < first["seed"]):
            first = agg["first"]
        for d, sd in agg["distinct"].items():
            if d not in distinct or sd < distinct[d]:
                distinct[d] = sd
        for k, n in agg["faults"].items():
            faults[k] = faults.get(k, 0) + n
        for k, n in agg["probes"].items():
            probes[k] = probes.get(k, 0) + n
        for k, n in agg["classes"].items():
            classes[k] = classes.get(k, 0) + n
        sigs.update(agg["sigs"])
        states.update(agg["states"])
        sim_hours += agg["sim_hours"]
        special.extend(agg["special"])

    with ProcessPoolExecutor(max_workers=workers, mp_context=ctx) as ex:
        pending = {}
        it = iter(chunks)
        def submit_next():
            try:
                c = next(it)
            except StopIteration:
                return False
            pending[ex.submit(_worker_agg, modname, tier, c, want_samples)] = c
            return True
        for _ in range(workers * 2):
            if not submit_next():
                break
        while pending:
            done = next(as_completed(list(pending)))
            c = pending.pop(done)
            try:
                fold(done.result())
            except BaseException as e:  # worker died
                harness_errors.append(f"worker failed on seeds {c[0]}..{c[-1]}: {e!r}")
            if time.time() - t0 > wall_cap:
                stopped_early = True
            elif not submit_next():
                pass
    special.sort(key=lambda r: r["seed"])

    known = load_known(prop)
    known_hit = {}
    unknown = []
    for r in special:
        if r.get("harness"):
            harness_errors.append(f"seed {r['seed']}: {r['harness']}")
        for v in r.get("violations", []):
            sig = mod.known_sig(r["scenario"], v) if hasattr(mod, "known_sig") else None
            if sig is not None and sig in known:
                known_hit[sig] = known_hit.get(sig, 0) + 1
            else:
                unknown.append((r, v))

    # ---------------------------------------------------------------- evidence
    samples = []
    for r in special:
        if "scenario" in r and not r.get("violations") and not r.get("harness") and len(samples) < 3:
            samples.append({"seed": r["seed"], "scenario": r["scenario"],
                            "outcome": r.get("outcome", ""), "digest": r["digest"]})
    if not samples and first is not None:
        samples.append({"seed": first["seed"], "note": "first run of the batch", "digest": first["digest"]})
    wall = time.time() - t0

    # ------------------------------------------------------- violations: shrink+replay
    reported = []
    seen_keys = set()
    for r, v in unknown:
        k = vkey(v)
        if k in seen_keys:
            continue
        seen_keys.add(k)
        if len(reported) >= 3:
            break
        say(f"  violation seed={r['seed']} oracle={v['oracle']} kind={v.get('kind','')}: {v['msg'][:300]}")
        sig0 = mod.known_sig(r["scenario"], v) if hasattr(mod, "known_sig") else None
        fast = os.environ.get("VERIF_FAST_REPORT") == "1"     # (kill matrix: verdict only, no minimisation, no replay check)
        best = shrink(mod, tier, r["tape"], k, log=say, want_sig=sig0) if not fast else (r["scenario"], r["violations"], r["tape"])
        history = None
        if best is None:
            best = (r["scenario"], r["violations"], r["tape"])
            history = r.get("history") or None
            say("  (could not re-run the violation while shrinking; keeping the original"
                + (f" together with the {len(history)} seeds its process had executed before)" if history else ")"))
        sc, vs, tp = best
        vmin = [x for x in vs if vkey(x) == k and
                (not hasattr(mod, "known_sig") or mod.known_sig(sc, x) == sig0)] or vs
        # the known-finding predicate is evaluated again on the minimised case
        sig = mod.known_sig(sc, vmin[0]) if hasattr(mod, "known_sig") else None
        if sig is not None and sig in known:
            known_hit[sig] = known_hit.get(sig, 0) + 1
            continue
        path = os.path.join(ROOT, "replays", f"{prop}-{r['seed']}.json")
        if any(pth == path for pth, _, _ in reported):
            # a second, different violation of the same seed gets a replay file of its own
            path = os.path.join(ROOT, "replays", f"{prop}-{r['seed']}-{len(reported) + 1}.json")
        os.makedirs(os.path.dirname(path), exist_ok=True)
        replay = {"property": prop, "check": modname, "tier": tier, "seed": r["seed"],
                  "base_seed": base_seed, "violation": vmin[0], "key": list(k),
                  "scenario": sc, "tape": tp,
                  "faults_fired": guarded_execute(mod, sc).get("faults", {}),
                  "original_scenario": r["scenario"], "original_tape": r["tape"]}
        if history:
            replay["history_seeds"] = history
        with open(path, "w") as f:
            f.write(dumps(replay, indent=1))
        ok = True if fast else verify_replay(modname, path)
        if ok and history and not fast:
            # minimise the history: the shortest suffix (1, 2, 4, ... seeds) after which the violation still appears
            k = 1
            while k < len(history):
                replay["history_seeds"] = history[-k:]
                with open(path + ".try", "w") as f:
                    f.write(dumps(replay, indent=1))
                if verify_replay(modname, path + ".try"):
                    os.replace(path + ".try", path)
                    say(f"  (history reduced to the last {k} of {len(history)} seeds)")
                    break
                k *= 2
            if os.path.exists(path + ".try"):
                os.remove(path + ".try")
        reported.append((path, v, ok))

    n_viol = len(reported)
    ev = {
        "property_id": prop, "tier": tier, "seed": base_seed, "level": mod.LEVEL,
        "coverage": {
            "evaluations": n_runs,
            "distinct_nontrivial": len(distinct),
            "rule": mod.RULE,
            "samples": samples,
            "runs_requested": runs, "stopped_early_at_wall_cap": stopped_early,
            "runs_per_hour": int(n_runs / max(wall, 1e-6) * 3600),
            "seeds": f"{n_runs} of {seeds[0]}..{seeds[-1]} (VERIF_SEED*{SEED_MULT}+i, handed out in order)",
            "simulated_hours_covered": sim_hours,
            "faults_fired": faults, "probes": probes,
            "distinct_schedules": len(sigs), "distinct_abstract_states": len(states),
            "outcome_classes": classes,
            "real_components": getattr(mod, "REAL", []),
            "stub_components": getattr(mod, "STUB", []),
            "known_findings_hit": known_hit,
            "harness_errors": len(harness_errors),
            "exhaustive": False,
        },
        "assumptions": getattr(mod, "ASSUMPTIONS", []),
        "wall_s": round(wall, 2),
        "violations": n_viol,
    }
    if hasattr(mod, "extra_evidence"):
        ev["coverage"].update(mod.extra_evidence(special))
    os.makedirs(os.path.join(ROOT, "evidence"), exist_ok=True)
    with open(os.path.join(ROOT, "evidence", f"{prop}.json"), "w") as f:
        f.write(dumps(ev, indent=1))

    say(f"  runs={n_runs} distinct_nontrivial={len(distinct)} schedules={len(sigs)} "
        f"states={len(states)} wall={wall:.1f}s faults={faults}")
    if probes:
        say(f"  probes={probes}")
    for sig, text in sorted(known.items()):
        print(f"KNOWN-FINDING: property={prop} sig={sig} {text} (hit {known_hit.get(sig, 0)}x in this run)",
              flush=True)
    for h in harness_errors[:5]:
        print("HARNESS-ERROR:", h, flush=True)
    if harness_errors and not reported:
        return 2
    for path, v, ok in reported:
        if not ok:
            print(f"  note: replay of {path} did not reproduce in a fresh process", flush=True)
        print(f"VIOLATION property={prop} replay={path}", flush=True)
    return 1 if reported else 0


# ------------------------------------------------------------------------- replay
def do_replay(modname, path, quiet=False):
    mod = _load(modname)
    rp = loads(open(path).read())
    hist = rp.get("history_seeds") or []
    if hist and not quiet:
        print(f"replaying the {len(hist)} seeds the worker process had executed before this one")
    for hs in hist:
        # the violation depended on what its worker process had executed before: the same seeds in the same order
        # (the generators are pure functions of seed and code)
        try:
            guarded_execute(mod, guarded_generate(mod, Tape(seed=hs), rp.get("tier", "quick")))
        except Exception:      # noqa: BLE001
            pass
    res = guarded_execute(mod, rp["scenario"])
    key = tuple(rp["key"])
    same = [v for v in res["violations"] if vkey(v) == key]
    if res.get("harness"):
        print("HARNESS-ERROR:", res["harness"])
        return 2
    if same:
        if not quiet:
            print(f"replay reproduces: oracle={same[0]['oracle']} kind={same[0].get('kind','')}: {same[0]['msg'][:600]}")
            print(f"digest={res['digest']}")
        print(f"VIOLATION property={rp['property']} replay={path}")
        return 1
    print(f"replay of {path}: violation {key} not reproduced"
          + (f" (other violations: {[vkey(v) for v in res['violations']]})" if res["violations"] else ""))
    return 1 if res["violations"] else 0


def verify_replay(modname, path):
    """Replay in a fresh interpreter (other PYTHONHASHSEED) - must fail the same way."""
    env = dict(os.environ, PYTHONHASHSEED="12345")
    p = subprocess.run([sys.executable, os.path.join(ROOT, "check"), modname, "--replay", path,
                        "--quiet"], capture_output=True, text=True, env=env, timeout=1800)
    return p.returncode == 1 and "VIOLATION" in p.stdout


# --------------------------------------------------------------- determinism self-test
def run_digests(modname, tier, base_seed, runs, workers):
    """per-seed event-log digests of a small batch (used by selftest/determinism.sh)"""
    mod = _load(modname)
    seeds = [base_seed * SEED_MULT + i for i in range(runs)]
    chunk = max(1, runs // (workers * 2) or 1)
    chunks = [seeds[i:i + chunk] for i in range(0, len(seeds), chunk)]
    out = {}
    ctx = mp.get_context("fork")
    with ProcessPoolExecutor(max_workers=workers, mp_context=ctx) as ex:
        for recs in ex.map(_worker, [modname] * len(chunks), [tier] * len(chunks), chunks, [set()] * len(chunks)):
            for r in recs:
                out[r["seed"]] = [r.get("digest"), r.get("nviol"), bool(r.get("harness"))]
    return out
