"""Calendar-step family (engine "K"): REAL library components stepping with dateutil.relativedelta (months from a
month-end start day, mixed with days) - the documented alternative to timedelta steps.  No model of the calendar is
needed: the oracles only compare what the driver was told with what then happened.

  producer : finam.components.CallbackGenerator, value published for time t = hours since 1990-01-01 (so a received
             value names the publication it came from)
  link     : direct | Scale | DelayFixed(days)
  consumer : finam.components.CallbackComponent(step=relativedelta(months=m, days=d)), optionally a second one
             reading the first

Oracles: the run ends without exception (C01/C03); for every update of a consumer the time announced by next_time
before the update, the time handed to the model callback and the component's time afterwards are the same (C02);
times strictly increase and end at or beyond the end time (C03); every received value is the producer's publication
for exactly the requested (delayed) time, i.e. it existed when it was requested (C01).
"""
from datetime import datetime, timedelta

from dateutil.relativedelta import relativedelta

from . import bootstrap  # noqa: F401
from .core import digest_of

EPOCH = datetime(1990, 1, 1)


def hours(t):
    return (t - EPOCH) / timedelta(hours=1)


def gen_calendar(tape):
    year = tape.choice([1999, 2000, 2001, 2004])
    month = tape.choice([1, 3, 5, 8, 10, 12])
    day = tape.choice([1, 15, 28, 29, 30, 31, 31, 30])
    if month in (4, 6, 9, 11) and day == 31:
        day = 30
    cstep = {"months": tape.choice([1, 1, 2, 3]), "days": tape.choice([0, 0, 0, 1, 15])}
    pstep = tape.choice([{"td_hours": 24}, {"td_hours": 12}, {"rd_days": 1}, {"td_hours": 6}, {"rd_days": 1, "rd_hours": 0}])
    lead = tape.choice([0, 0, 1, 3])            # producer starts this many days before the consumer
    # "delay_months": a calendar delay (relativedelta of whole months); "trigger": through a real TimeTrigger that steps with
    # the consumer's calendar step from the same start day
    link = tape.weighted([("direct", 4), ("scale", 2), ("delay", 3), ("delay_months", 2), ("trigger", 2)])
    sc = {"engine": "K", "start": [year, month, day], "cstep": cstep, "pstep": pstep, "lead": lead, "link": link,
          "delay_days": tape.choice([1, 2, 31]) if link == "delay" else 0,
          "delay_months": tape.choice([1, 1, 2]) if link == "delay_months" else 0,
          "n_steps": tape.rng_int(3, 8), "initial_pull": not tape.chance(1, 4),
          "second": tape.chance(1, 3), "second_step": {"months": tape.choice([1, 2]), "days": 0},
          "listing": tape.shuffle([0, 1, 2, 3])}
    return sc


def run_calendar(sc):
    import finam as fm
    from finam.components import CallbackComponent, CallbackGenerator
    viol, log = [], []

    def v(oracle, kind, msg):
        viol.append({"oracle": oracle, "kind": kind, "msg": msg, "comp": ""})

    start = datetime(*sc["start"])
    cstep = relativedelta(months=sc["cstep"]["months"], days=sc["cstep"]["days"])
    ps = sc["pstep"]
    pstep = timedelta(hours=ps["td_hours"]) if "td_hours" in ps else relativedelta(days=ps["rd_days"], hours=ps.get("rd_hours", 0))
    pstart = start - timedelta(days=sc["lead"])
    end = start
    for _ in range(sc["n_steps"]):
        end = end + cstep
    end = end - timedelta(days=1) if sc["n_steps"] % 2 else end        # on and off the consumer's step grid

    prod = CallbackGenerator({"o": (lambda t: hours(t), fm.Info(time=None, grid=fm.NoGrid(), units=""))}, pstart, pstep)
    prod.with_name("prod")
    got = {"c1": [], "c2": []}

    def mk_cb(name):
        def cb(inp, time):
            got[name].append((time, None if inp is None else float(inp["i"].magnitude.reshape(-1)[0])))
            return {"o": hours(time)}
        return cb

    c1 = CallbackComponent(inputs={"i": fm.Info(time=None, grid=fm.NoGrid(), units="")},
                           outputs={"o": fm.Info(time=None, grid=fm.NoGrid(), units="")},
                           callback=mk_cb("c1"), start=start, step=cstep, initial_pull=sc["initial_pull"])
    c1.with_name("c1")
    comps = [prod, c1]
    c2 = None
    if sc["second"]:
        s2 = relativedelta(months=sc["second_step"]["months"])
        c2 = CallbackComponent(inputs={"i": fm.Info(time=None, grid=fm.NoGrid(), units="")},
                               outputs={"o": fm.Info(time=None, grid=fm.NoGrid(), units="")},
                               callback=mk_cb("c2"), start=start, step=s2)
        c2.with_name("c2")
        comps.append(c2)
    trig = None
    if sc["link"] == "trigger":
        from finam.components import TimeTrigger
        trig = TimeTrigger(in_info=fm.Info(time=None, grid=fm.NoGrid(), units=""), start=start, step=cstep)
        trig.with_name("trig")
        comps.append(trig)
    updates = {"c1": [], "c2": [], "trig": []}
    for comp in comps[1:]:
        def wrap(comp=comp):
            orig = comp.update

            def upd():
                ann, before = comp.next_time, comp.time
                orig()
                updates[comp.name].append((before, ann, comp.time))
            comp.update = upd
        wrap()
    order = [i for i in sc["listing"] if i < len(comps)] + [i for i in range(len(comps)) if i not in sc["listing"]]
    composition = fm.Composition([comps[i] for i in order], print_log=False, log_level=50)
    if sc["link"] == "scale":
        prod.outputs["o"] >> fm.adapters.Scale(1.0) >> c1.inputs["i"]
    elif sc["link"] == "delay":
        prod.outputs["o"] >> fm.adapters.DelayFixed(delay=timedelta(days=sc["delay_days"])) >> c1.inputs["i"]
    elif sc["link"] == "delay_months":
        prod.outputs["o"] >> fm.adapters.DelayFixed(delay=relativedelta(months=sc["delay_months"])) >> c1.inputs["i"]
    elif sc["link"] == "trigger":
        prod.outputs["o"] >> trig.inputs["In"]
        trig.outputs["Out"] >> c1.inputs["i"]
    else:
        prod.outputs["o"] >> c1.inputs["i"]
    if c2 is not None:
        c1.outputs["o"] >> fm.adapters.DelayFixed(delay=timedelta(days=0)) >> c2.inputs["i"]
    status = "ok"
    try:
        composition.run(end_time=end)
    except Exception as e:      # noqa: BLE001
        status = type(e).__name__
        v("cal-run-raises", type(e).__name__, f"run() with calendar steps raised {type(e).__name__}: {str(e)[:200]}; scenario {sc}")
    for name, ups in updates.items():
        last = None
        for (before, ann, after) in ups:
            log.append((name, str(before), str(ann), str(after)))
            if ann != after:
                v("cal-announced-vs-actual", "time", f"{name}: next_time announced {ann} before the update, the component then "
                  f"stepped to {after}; scenario {sc}")
                break
            if not after > before or (last is not None and not after > last):
                v("cal-time-not-increasing", "time", f"{name}: {before} -> {after}")
                break
            last = after
    if status == "ok":
        for comp in comps[1:]:
            if comp.time < end:
                v("cal-end-not-reached", "end", f"{comp.name} stopped at {comp.time} before the end {end}")
    # received values: the publication for exactly the requested time (publication times are multiples of the producer
    # step from its start; all requested times lie on that grid)
    d = timedelta(days=sc["delay_days"])
    calls = got["c1"]
    ups = updates["c1"]
    offs = len(calls) - len(ups)          # the connect-phase evaluation(s) come first
    for k, (before, ann, after) in enumerate(ups):
        if offs + k >= len(calls):
            break
        t_cb, val = calls[offs + k]
        if t_cb != ann:
            v("cal-announced-vs-actual", "callback-time", f"c1: announced {ann}, model evaluated for {t_cb}; scenario {sc}")
            break
        want_t = max(ann - d, pstart) if sc["link"] == "delay" else ann
        if sc["link"] == "delay_months":
            want_t = max(ann - relativedelta(months=sc["delay_months"]), pstart)
        if val is not None and abs(val - hours(want_t)) > 1e-6:
            v("cal-value", "value", f"c1 update to {ann}: received the publication for hour {val}, requested time "
              f"{want_t} is hour {hours(want_t)}; scenario {sc}")
            break
    n_up = sum(len(u) for u in updates.values())
    return {"violations": viol, "digest": digest_of(log + [status]), "nontrivial": status == "ok" and n_up >= 3,
            "faults": {"F7_listing_permuted": int(order != sorted(order))}, "probes": {"calendar_runs": 1, "calendar_updates": n_up},
            "sig": digest_of(log), "state_sigs": [], "sim_hours": int((end - pstart) / timedelta(hours=1)),
            "cls": "K:" + status, "outcome": {"family": "calendar", "status": status, "updates": n_up}}
