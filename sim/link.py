"""Engine E3: link simulator.  One real Output, chains of real adapters, 1-4 real
Inputs wired exactly as the SDK prescribes (>>, ping, exchange_info), driven by
a seeded event list:  PUSH(t, payload) with increasing t, PULL(consumer, t) with
non-decreasing t per consumer.  No Composition is involved.
"""
from fractions import Fraction
import os

from . import bootstrap  # noqa: F401
from . import instrument as ins
from .core import digest_of, HarnessError
from .model import LinkModel, ModelRefuse, Unknown, any_close, BUFFERING, F, UNIT_TABLE, convert
from . import timebase
from .world import dt, td, tick, make_adapter, mag

import numpy as np
import finam as fm
from finam import Info, NoGrid, Input, Output
from finam.errors import FinamTimeError, FinamNoDataError, FinamDataError, FinamMetaDataError
from finam.data.tools import UNITS

class Rig:
    def __init__(self, sc, scratch=None):
        self.sc = sc
        self.scratch = scratch
        src = sc["src"]
        self.t0 = sc.get("t0", 0)
        self.units = src.get("units", "")
        # gridded payloads: every publication is base_field + value; all adapters are affine in the series, so the
        # expected array is base_field * (A(ones) - A(zeros)) + A(values) with three model instances in lockstep
        self.grid_spec = src.get("grid")
        if self.grid_spec:
            from .grids import make_grid, MGrid
            self.grid = make_grid(self.grid_spec)
            mg = MGrid(self.grid_spec)
            self.base = mg.field([0.25, 1.0, 10.0, 100.0][: mg.dim + 1])
        else:
            self.grid, self.base = NoGrid(), None
        # masked gridded payloads (flexible mask in the metadata): "partial" - the same cells masked in every
        # publication, "nomask" - a masked array that masks nothing (numpy keeps no mask array for it)
        self.masked = src.get("masked") if self.grid_spec else None
        self.log_idx = 0
        self.maskarr = None
        if self.masked:
            self.maskarr = (np.round(self.base * 3.7) % 3 == 0) if self.masked == "partial" else np.zeros(self.base.shape, bool)
            if self.masked == "partial" and not self.maskarr.all():
                # the logged sample of every delivered array is its first unmasked cell
                self.log_idx = int(np.flatnonzero(~self.maskarr.reshape(-1))[0])
        # forms of the public API used to build the same link (sc["api"]): bit 0 - slot metadata as keywords instead of an
        # Info object, bit 1 - .chain() instead of >>, bit 2 - metadata handed over late (push_info / exchange_info(info)), bit 3 - adapter constructor arguments in the
        # other documented form (positional <-> keyword)
        api = self.api = sc.get("api", 0)
        info = Info(time=dt(self.t0), grid=self.grid, units=self.units)
        self.late_info = None
        if api & 4 and not src.get("static"):
            self.out = Output(name="src")
            self.late_info = info
        elif api & 1:
            self.out = Output(name="src", time=dt(self.t0), grid=self.grid, units=self.units, static=bool(src.get("static")))
        else:
            self.out = Output(name="src", info=info, static=bool(src.get("static")))
        if src.get("mem_limit") is not None:
            self.out.memory_limit = src["mem_limit"]
            self.out.memory_location = scratch
        self.labels = {id(self.out): "src"}
        self.inputs = []
        self.adapters = []
        self.models = []
        self.pubs = []            # model side: [(tick, value in source units)]
        self.pubs1, self.pubs0 = [], []      # the same series with all values 1 / 0 (gridded payloads)
        self.models1, self.models0 = [], []
        for ci, c in enumerate(sc["consumers"]):
            cur = self.out
            ads = []
            for pi, a in enumerate(c["chain"]):
                if pi < c.get("shared_len", 0):
                    # fan-out at an adapter: the very same (stateless, branchable) instances as the base consumer
                    ad = self.adapters[c["shared_with"]][pi]
                    ads.append(ad)
                    cur = ad
                    continue
                ad = make_adapter(a, alt=bool(api & 8))
                if c.get("mem_limit") is not None:
                    ad.memory_limit = c["mem_limit"]
                    ad.memory_location = scratch
                self.labels[id(ad)] = f"c{ci}.a{pi}"
                ads.append(ad)
                cur = cur.chain(ad) if api & 2 else cur >> ad
            # the time in an input's metadata is the consumer's own start; it may be later than the source's
            it0 = dt(c.get("info_t", self.t0))
            iinfo = Info(time=it0, grid=None if self.grid_spec else NoGrid(), units=c.get("units"))
            if api & 4 and not c.get("static"):
                inp = Input(name=f"c{ci}")
                inp._late_info = iinfo
            elif api & 1:
                inp = Input(name=f"c{ci}", time=it0, grid=None if self.grid_spec else NoGrid(),
                            units=c.get("units"), static=bool(c.get("static")))
            else:
                inp = Input(name=f"c{ci}", info=iinfo, static=bool(c.get("static")))
            if api & 2:
                cur.chain(inp)
            else:
                cur >> inp
            self.labels[id(inp)] = f"c{ci}"
            self.inputs.append(inp)
            self.adapters.append(ads)
            lm = LinkModel(c["chain"], self.t0, source_pubs=lambda upto: self.pubs,
                           now_newest=lambda: self.pubs[-1][0] if self.pubs else None)
            self.models.append(lm)
            if self.grid_spec:
                self.models1.append(LinkModel(c["chain"], self.t0, source_pubs=lambda upto: self.pubs1,
                                              now_newest=lambda: self.pubs1[-1][0] if self.pubs1 else None))
                self.models0.append(LinkModel(c["chain"], self.t0, source_pubs=lambda upto: self.pubs0,
                                              now_newest=lambda: self.pubs0[-1][0] if self.pubs0 else None))
        self.rec = ins.Recorder(labels=self.labels, tick_of=tick)

    def connect(self):
        for inp in self.inputs:
            inp.ping()
        if self.late_info is not None:
            self.out.push_info(self.late_info)
        order = self.sc.get("exchange_order") or list(range(len(self.inputs)))
        for ci in order:
            late = getattr(self.inputs[ci], "_late_info", None)
            if late is not None:
                self.inputs[ci].exchange_info(late)
            else:
                self.inputs[ci].exchange_info()

    def out_units(self, ci):
        """expected units label of what consumer ci receives (model side)"""
        u = self.units
        for a in self.sc["consumers"][ci]["chain"]:
            if a["kind"] == "sum" and a.get("per_time", True):
                u = {"": "s", "m/s": "m", "mm/d": "mm", "m": "m s", "mm": "mm s"}[u]
        return u

    def chain_factor(self, ci):
        """magnitude factor caused by unit reduction in per-time sums (value*seconds -> reduced units)"""
        f = 1.0
        u = self.units
        for a in self.sc["consumers"][ci]["chain"]:
            if a["kind"] == "sum" and a.get("per_time", True):
                if u == "mm/d":
                    f *= 1.0 / 86400.0
                u = {"": "s", "m/s": "m", "mm/d": "mm", "m": "m s", "mm": "mm s"}[u]
        return f


def registered_targets(sc):
    """what registers at the source output (by ping): the first push-based adapter of a chain, else the input.
    Returns per consumer the chain position of the registered element (None = the input itself)."""
    out = []
    for c in sc["consumers"]:
        pos = None
        for pi, a in enumerate(c["chain"]):
            if a["kind"] in BUFFERING:
                pos = pi
                break
        out.append(pos)
    return out


def run_e3(sc, scratch=None):
    own_scratch = None
    if scratch is None and (sc["src"].get("mem_limit") is not None or
                            any(c.get("mem_limit") is not None for c in sc["consumers"])):
        # storage pressure (F6): history and adapter buffers are spilled to real files below a per-process directory
        from .world import scratch_dir
        import shutil
        own_scratch = scratch = os.path.join(scratch_dir(), "e3spill")
        shutil.rmtree(scratch, ignore_errors=True)
        os.makedirs(scratch, exist_ok=True)
    rig = Rig(sc, scratch)
    viol, probes, log = [], {}, []

    def probe(k, n=1):
        probes[k] = probes.get(k, 0) + n

    def v(oracle, kind, msg, **kw):
        viol.append(dict({"oracle": oracle, "kind": kind, "msg": msg}, **kw))

    ins.install(rig.rec)
    try:
        try:
            rig.connect()
        except Exception as e:      # noqa: BLE001
            # every generated link is valid: the metadata exchange of the SDK has to go through
            v("push-raises", "connect:" + type(e).__name__,
              f"ping / exchange_info of a valid link raised {type(e).__name__}: {str(e)[:300]}")
            return {"violations": viol, "probes": probes, "digest": digest_of(["connect", type(e).__name__]), "log": log,
                    "rig": rig, "n_pulls": 0, "n_push": 0}
        reg = registered_targets(sc)
        pulled_once = [False] * len(rig.inputs)
        held = []
        last_obj = None
        for ei, ev in enumerate(sc["events"]):
            kind = ev[0]
            n_ev0 = len(rig.rec.events)
            if kind == "PUSH":
                _, t, val = ev[:3]
                mode = ev[3] if len(ev) > 3 else None
                payload = float(val) if rig.base is None else rig.base + float(val)
                if rig.masked == "partial":
                    payload = np.ma.array(payload, mask=rig.maskarr.copy())
                elif rig.masked == "nomask":
                    payload = np.ma.array(payload)
                if sc["src"].get("time_axis"):
                    # the producer hands over an array of its own that already carries the leading time axis
                    payload = (payload[np.newaxis, ...] if isinstance(payload, np.ndarray) else np.array([payload])).copy()
                exc = None
                try:
                    rig.out.push_data(payload, dt(t))
                except Exception as e:
                    exc = e
                if exc is not None:
                    v("push-raises", type(exc).__name__, f"event {ei}: push at {t} raised {type(exc).__name__}: {exc}")
                    break
                rig.pubs.append((t, float(val)))
                rig.pubs1.append((t, 1.0))
                rig.pubs0.append((t, 0.0))
                for group in (rig.models, rig.models1, rig.models0):
                    for ci, lm in enumerate(group):
                        for pos, a in enumerate(sc["consumers"][ci]["chain"]):
                            if a["kind"] in BUFFERING:
                                try:
                                    lm._fill(pos, t)
                                except (Unknown, ModelRefuse):
                                    pass
                log.append(("PUSH", t))
            elif kind == "PULL":
                _, ci, t = ev
                lm = rig.models[ci]
                n_src0 = len(lm.src_requests)
                try:
                    alts = lm.pull(t)
                    exp = ("val", alts)
                except ModelRefuse as e:
                    exp = ("refuse", e.kind)
                except Unknown:
                    exp = ("unknown", None)
                w1 = w0 = None
                if rig.base is not None:
                    try:
                        a1 = rig.models1[ci].pull(t)
                        a0 = rig.models0[ci].pull(t)
                        if len(a1) == 1 and len(a0) == 1:
                            w1, w0 = a1[0], a0[0]
                    except (ModelRefuse, Unknown):
                        pass
                try:
                    d = rig.inputs[ci].pull_data(dt(t))
                    held.append((ei, ci, d.magnitude, np.ma.copy(d.magnitude)))
                    del held[:-12]
                    if rig.base is None:
                        act = ("val", mag(d), str(d.units))
                    else:
                        arr = d.magnitude
                        if rig.masked:
                            if not np.ma.isMaskedArray(arr):
                                v("link-mask", "unmasked", f"event {ei}: consumer {ci} pull at {t}: masked publications "
                                  "arrive as a plain array", consumer=ci)
                            elif arr.shape == (1,) + rig.base.shape and \
                                    not np.array_equal(np.ma.getmaskarray(arr)[0], rig.maskarr):
                                v("link-mask", "mask", f"event {ei}: consumer {ci} pull at {t}: delivered mask "
                                  f"{np.ma.getmaskarray(arr)[0].astype(int).tolist()}, published {rig.maskarr.astype(int).tolist()}",
                                  consumer=ci)
                            arr = np.where(rig.maskarr[None, ...], 0.0, np.ma.getdata(arr)) \
                                if arr.shape == (1,) + rig.base.shape else np.ma.getdata(arr)
                        arr = np.asarray(arr)
                        act = ("val", arr, str(d.units))
                except FinamTimeError as e:
                    act = ("FinamTimeError", str(e)[:200])
                except FinamNoDataError as e:
                    act = ("FinamNoDataError", str(e)[:200])
                except Exception as e:
                    act = (type(e).__name__, str(e)[:300])
                log.append(("PULL", ci, t, act[0], (act[1] if rig.base is None else float(np.asarray(act[1]).reshape(-1)[rig.log_idx]))
                            if act[0] == "val" else None))
                cu = sc["consumers"][ci].get("units")
                if exp[0] == "val":
                    f = rig.chain_factor(ci)
                    ou = rig.out_units(ci)
                    want = tuple(convert(x * f, ou, cu) for x in exp[1])
                    # absolute tolerance relative to the magnitude of the terms that were combined (integrals are
                    # differences of large products; unit conversion rescales everything)
                    span = 1.0
                    if any(a["kind"] == "sum" and a.get("per_time", True) for a in sc["consumers"][ci]["chain"]):
                        span = max(1.0, float(rig.pubs[-1][0] - rig.pubs[0][0]) * float(timebase.tick_seconds()))
                    vmax = max([abs(p[1]) for p in rig.pubs] + [1.0]) + (float(np.max(np.abs(rig.base))) if rig.base is not None else 0.0)
                    scl = abs(convert(1.0, ou, cu) - convert(0.0, ou, cu)) if cu else 1.0
                    atol = 1e-9 * vmax * span * abs(f) * scl * 4.0 + 1e-12
                    if len(want) > 1:
                        probe("tie_midpoint")
                    if act[0] == "val":
                        pulled_once[ci] = True
                        if rig.base is not None:
                            arr = act[1]
                            if arr.shape != (1,) + rig.base.shape:
                                v("link-shape", "shape", f"event {ei}: delivered shape {arr.shape}, expected {(1,) + rig.base.shape}",
                                  consumer=ci)
                            elif w1 is None or len(want) != 1:
                                probe("grid_value_unspecified")
                            else:
                                fac = convert(1.0, ou, cu) if cu else 1.0
                                exp_arr = (rig.base * (w1 - w0) * f) * fac + want[0]
                                if rig.masked:
                                    exp_arr = np.where(rig.maskarr, 0.0, exp_arr)
                                # (offset units are not used with gridded payloads)
                                if not np.allclose(arr[0], exp_arr, rtol=1e-9, atol=atol):
                                    v("link-value", "grid-value",
                                      f"event {ei}: consumer {ci} pull at {t}: gridded result differs from the definition "
                                      f"(first element {arr[0].reshape(-1)[0]} vs {exp_arr.reshape(-1)[0]})", consumer=ci)
                                probe("grid_value_compared")
                        elif not isinstance(act[1], float) or not any(abs(act[1] - w_) <= atol + 1e-9 * max(abs(act[1]), abs(w_)) for w_ in want):
                            v("link-value", "value", f"event {ei}: consumer {ci} pull at {t}: got {act[1]}, ideal link gives {want}",
                              consumer=ci)
                        want_u = cu or ou
                        if not _same_units(act[2], want_u):
                            v("link-units", "units", f"event {ei}: consumer {ci}: units {act[2]!r}, expected {want_u!r}",
                              consumer=ci)
                    elif act[0] in ("FinamTimeError", "FinamNoDataError"):
                        v("range-false-refuse", act[0],
                          f"event {ei}: consumer {ci} pull at {t} refused ({act[1]}) although the unlimited-history link serves {want}",
                          consumer=ci)
                    else:
                        v("link-exception", act[0], f"event {ei}: consumer {ci} pull at {t} raised {act[0]}: {act[1]}",
                          consumer=ci)
                elif exp[0] == "refuse":
                    probe("refusal_expected_" + exp[1])
                    if act[0] == "val":
                        v("range-not-refused", exp[1],
                          f"event {ei}: consumer {ci} pull at {t} returned {act[1]} but the request is outside the published range ({exp[1]})",
                          consumer=ci)
                    elif act[0] not in ("FinamTimeError", "FinamNoDataError"):
                        v("link-exception", act[0], f"event {ei}: consumer {ci} pull at {t} raised {act[0]}: {act[1]}",
                          consumer=ci)
                else:
                    probe("value_unspecified")
                    if act[0] == "val":
                        pulled_once[ci] = True
                # spy: times that reached the source output during this pull
                got = [e[2] for e in rig.rec.events[n_ev0:] if e[0] == "GET" and e[1] == "src"]
                want_src = lm.src_requests[n_src0:]
                if exp[0] != "unknown" and act[0] == "val" and got != want_src:
                    v("delay-time", "source-request",
                      f"event {ei}: consumer {ci} pull at {t}: source output was asked for {got}, link definition gives {want_src}",
                      consumer=ci)
                if got:
                    probe("source_request_compared")
            # what a consumer received earlier stays what it was, whatever is published or pulled afterwards
            for (e0, c0, ref, cp) in held:
                if not np.array_equal(np.ma.getmaskarray(ref), np.ma.getmaskarray(cp)) or \
                        not np.array_equal(np.ma.getdata(ref)[~np.ma.getmaskarray(cp)], np.ma.getdata(cp)[~np.ma.getmaskarray(cp)]):
                    v("link-value", "overwritten", f"event {ei}: the data consumer {c0} received at event {e0} was changed "
                      "in place afterwards", consumer=c0)
                    break
            if own_scratch and os.listdir(own_scratch):
                probe("events_with_spilled_entries")
            # ---- C09 bound after every event
            if all(pulled_once[ci] or reg[ci] is not None for ci in range(len(rig.inputs))) and rig.pubs \
                    and not sc["src"].get("static"):
                lasts = []
                for ci, lm in enumerate(rig.models):
                    if reg[ci] is not None and not any(a["kind"].startswith("delay") for a in sc["consumers"][ci]["chain"][:reg[ci]]):
                        lasts.append(rig.pubs[-1][0])       # push-based adapter pulled at the last notification
                    elif lm.src_requests:
                        # (also a push-based adapter behind a delay adapter: its request reaches the source shifted)
                        lasts.append(lm.src_requests[-1])
                if len(lasts) == len(rig.models):
                    slow = min(F(x) for x in lasts)
                    bound = sum(1 for (tp, _) in rig.pubs if F(tp) > slow) + 1
                    n = len(rig.out.data)
                    probe("bound_checked")
                    if n > bound:
                        v("history-unbounded", "bound",
                          f"event {ei}: output retains {n} entries; publications newer than the slowest last request "
                          f"({slow}) + 1 = {bound}")
                    if n < bound:
                        probe("history_shorter_than_bound")
            if viol:
                break
    finally:
        ins.uninstall()
        if own_scratch:
            n_files = len(os.listdir(own_scratch))
            if n_files:
                probe("spill_files_at_end", n_files)
            import shutil
            shutil.rmtree(own_scratch, ignore_errors=True)
    return {"violations": viol, "probes": probes, "digest": digest_of(log), "log": log, "rig": rig,
            "n_pulls": sum(1 for e in log if e[0] == "PULL"), "n_push": sum(1 for e in log if e[0] == "PUSH")}


def _same_units(got, want):
    try:
        return UNITS.Unit(got) == UNITS.Unit(want) or \
            abs((1.0 * UNITS.Unit(got)).to(UNITS.Unit(want)).magnitude - 1.0) < 1e-12
    except Exception:
        return False


# ------------------------------------------------------------------------ generator
GAPS = [1, 2, 3, 5, 8, 1, 2, 30, 49]      # hours; some gaps are longer than a day


def gen_events(tape, n_cons, n_events, *, strictly_increasing=None, out_of_range=True, halves=True,
               first_push=True, future_chance=(1, 12), refused_future_keeps_last=False, burst=None, step_pos=()):
    """interleaving of pushes (increasing times) and per-consumer pulls (non-decreasing times)"""
    strictly_increasing = strictly_increasing or [False] * n_cons
    events = []
    tpush = 0
    val = 100.0
    pubs = []
    last = [None] * n_cons
    if first_push:
        events.append(["PUSH", 0, val])
        pubs.append(0)
    after_burst = set()
    for ei in range(n_events):
        if burst and ei == burst[0]:
            # the producer runs far ahead: a long row of publications without any request in between
            for _ in range(burst[1]):
                tpush = tpush + tape.choice(GAPS)
                val = val + tape.choice([1, 3, -2, 10, 0.5, 0])
                events.append(["PUSH", tpush, val])
                pubs.append(tpush)
            after_burst = set(range(n_cons))
        if tape.chance(9, 20) or not pubs:
            if pubs:
                # (with step adapters on the link: now and then an interval of ten or thirty days, so that a second is a
                # few millionths of it)
                tpush = tpush + tape.choice(GAPS + ([240, 721] if step_pos else []))
            val = val + tape.choice([1, 3, -2, 10, 0.5, 0, 0, 0])      # also stretches of equal publications
            events.append(["PUSH", tpush, val])
            pubs.append(tpush)
        else:
            ci = tape.draw(n_cons)
            lo = last[ci]
            if lo is None:
                lo = pubs[0]
                if out_of_range and tape.chance(1, 15):
                    events.append(["PULL", ci, pubs[0] - tape.choice([1, 2])])
                    continue
            mode = tape.weighted([("step", 6), ("same", 2), ("newest", 3), ("mid", 3), ("pub", 3), ("future", 1), ("near", 1)]
                                 + ([("near_step", 3)] if step_pos else []))
            if ci in after_burst:
                # the first request after the row: the oldest entry again, or a small step into the long buffer
                after_burst.discard(ci)
                mode = tape.choice(["same", "step", "step"])
            hi = pubs[-1]
            if mode == "same":
                t = lo
            elif mode == "newest":
                t = hi
            elif mode == "pub":
                cand = [p for p in pubs if p >= lo]
                t = tape.choice(cand) if cand else lo
            elif mode == "mid":
                cand = [(Fraction(a + b, 2)) for a, b in zip(pubs, pubs[1:]) if Fraction(a + b, 2) >= lo]
                t = tape.choice(cand) if cand else lo
                if not halves and Fraction(t).denominator != 1:
                    t = lo
            elif mode == "near":
                # one second before / after a publication (a relative position within 1e-5 of an interval end where
                # the gap is longer than a day)
                cand = [q for p in pubs for q in (Fraction(p) - Fraction(1, 3600), Fraction(p) + Fraction(1, 3600))
                        if q >= lo and pubs[0] <= q <= pubs[-1]]
                t = tape.choice(cand) if cand and halves else lo
            elif mode == "near_step":
                # exactly on / one second before / one second after the position inside an interval at which a step
                # adapter switches to the newer value
                cand = [Fraction(a) + Fraction(sp) * (b - a) + d for a, b in zip(pubs, pubs[1:]) for sp in step_pos
                        for d in (0, Fraction(1, 3600), -Fraction(1, 3600))]
                cand = [q for q in cand if q >= lo and pubs[0] <= q <= pubs[-1] and (Fraction(q) * 3600).denominator == 1]
                t = tape.choice(cand) if cand and halves else lo
            elif mode == "future":
                if not (out_of_range and tape.chance(*future_chance)):
                    t = lo
                else:
                    t = hi + tape.choice([1, 2])
            else:
                step = tape.choice([1, 1, 2, 3, Fraction(1, 2), 5]) if halves else tape.choice([1, 1, 2, 3, 5])
                t = lo + step
            t = Fraction(t)
            t = int(t) if t.denominator == 1 else t
            if strictly_increasing[ci] and last[ci] is not None and t <= last[ci]:
                t = last[ci] + 1
            if t > hi and mode != "future":
                t = hi
                if last[ci] is not None and (t < last[ci] or (strictly_increasing[ci] and t <= last[ci])):
                    continue
            if last[ci] is not None and t < last[ci]:
                continue
            events.append(["PULL", ci, t])
            if (refused_future_keeps_last[ci] if isinstance(refused_future_keeps_last, list)
                    else refused_future_keeps_last) and t > hi:
                # the chain has no delay adapter: this request is refused, and a refused request is no request -
                # the consumer goes on from its last answered one
                continue
            if t >= pubs[0]:
                # also after a request beyond the newest publication (a delay adapter may well serve it):
                # request times stay non-decreasing whatever the answer was
                last[ci] = t
    return events
