"""What one simulator tick is in real time.

All engines count time in ticks (integers, or fractions with a denominator dividing 3600).  By default a tick is one
hour counted from 2000-01-01 00:00.  A scenario may choose another base (`sc["timebase"] = [k, origin_us]`): a tick is
then 3600*k microseconds (k = 1 000 000: an hour; 1 000 001: an hour and 3.6 ms; 16 667: about a minute; 277: about a
second; 24 000 000: a day; 1: 3.6 ms) and tick 0 lies `origin_us` microseconds after midnight - so the same scenario
exercises minute-, second- and microsecond-valued times, steps and delays, and a start that is not midnight.
"""
from datetime import datetime, timedelta
from fractions import Fraction

T0 = datetime(2000, 1, 1)
_k = 1_000_000
_origin_us = 0


def set_base(k=1_000_000, origin_us=0):
    global _k, _origin_us
    _k, _origin_us = int(k), int(origin_us)


def is_default():
    return _k == 1_000_000 and _origin_us == 0


def unit_us():
    return 3600 * _k


def tick_seconds():
    s = Fraction(3600 * _k, 1_000_000)
    return int(s) if s.denominator == 1 else float(s)


def to_timedelta(ticks):
    us = Fraction(ticks) * unit_us()
    if us.denominator != 1:
        raise ValueError(f"tick {ticks} not representable")
    return timedelta(microseconds=int(us))


def to_datetime(tick):
    return T0 + timedelta(microseconds=_origin_us) + to_timedelta(tick)


def to_tick(t):
    us = (t - T0 - timedelta(microseconds=_origin_us)) // timedelta(microseconds=1)
    f = Fraction(us, unit_us())
    return int(f) if f.denominator == 1 else f
