"""Engine E1: build a real finam Composition from a scenario and run it under the
recorder.  Harness components are stubs whose behaviour is entirely determined
by the scenario; everything between them (Composition, Input, Output, adapters,
ConnectHelper, Info, units) is the real code under test.
"""
from datetime import datetime, timedelta
from fractions import Fraction
import os
import shutil

from . import bootstrap  # noqa: F401
from . import instrument as ins
from . import timebase
from .core import BudgetExceeded, HarnessError

import numpy as np
import finam as fm
from finam import (Component, TimeComponent, Composition, Info, NoGrid, CallbackOutput,
                   CallbackInput, ComponentStatus)
from finam.adapters import base as abase, time as atime, time_integration as ainteg
from finam.data.tools import UNITS

T0 = datetime(2000, 1, 1)


def dt(tick):
    """tick (int or Fraction with denominator dividing 3600) -> datetime (see sim/timebase.py: an hour by default)"""
    if tick is None:
        return None
    try:
        return timebase.to_datetime(tick)
    except ValueError as e:
        raise HarnessError(str(e))


def td(ticks):
    return timebase.to_timedelta(ticks)


def tick(t):
    """datetime -> tick (int if whole ticks else Fraction)"""
    if t is None:
        return None
    return timebase.to_tick(t)


def mag(x):
    """plain python float (or nested list) of a finam payload"""
    m = x.magnitude if hasattr(x, "magnitude") else x
    a = np.asarray(m)
    if a.size == 1:
        return float(a.reshape(-1)[0])
    return a.tolist()


# ------------------------------------------------------------------------ adapters
def make_adapter(spec, alt=False):
    """alt: the other documented way of passing the constructor arguments (positional where the default form uses
    keywords and vice versa)"""
    k = spec["kind"]
    if alt:
        if k == "scale":
            return abase.Scale(scale=float(spec["f"]))
        if k == "step":
            return atime.StepTime(float(Fraction(spec["p"])) if not isinstance(spec["p"], float) else spec["p"])
        if k == "avg":
            p = spec.get("p")
            return ainteg.AvgOverTime(None if p is None else float(Fraction(p)))
        if k == "sum":
            p = spec.get("p")
            return ainteg.SumOverTime(None if p is None else float(Fraction(p)), bool(spec.get("per_time", True)),
                                      td(spec.get("init", 0)))
        if k == "delay_fixed":
            d = spec["d"]
            if isinstance(d, int) and d > 0:
                # the documented alternative to timedelta: a calendar-aware relativedelta (whole hours here)
                from dateutil.relativedelta import relativedelta
                if timebase.is_default():
                    return atime.DelayFixed(delay=relativedelta(hours=d))
                return atime.DelayFixed(delay=relativedelta(microseconds=td(d) // timedelta(microseconds=1)))
            return atime.DelayFixed(delay=td(d))
        if k == "delay_pull":
            return atime.DelayToPull(int(spec["n"]), td(spec.get("x", 0)))
    if k == "scale":
        return abase.Scale(float(spec["f"]))
    if k == "callback":
        c = float(spec["c"])
        return abase.Callback(lambda d, t, c=c: d + UNITS.Quantity(c, d.units))
    if k == "next":
        return atime.NextTime()
    if k == "prev":
        return atime.PreviousTime()
    if k == "linear":
        return atime.LinearTime()
    if k == "step":
        return atime.StepTime(step=float(Fraction(spec["p"])) if not isinstance(spec["p"], float) else spec["p"])
    if k == "stack":
        return atime.StackTime()
    if k == "avg":
        p = spec.get("p")
        return ainteg.AvgOverTime(step=None if p is None else float(Fraction(p)))
    if k == "sum":
        p = spec.get("p")
        return ainteg.SumOverTime(step=None if p is None else float(Fraction(p)),
                                  per_time=bool(spec.get("per_time", True)),
                                  initial_interval=td(spec.get("init", 0)))
    if k == "delay_fixed":
        return atime.DelayFixed(td(spec["d"]))
    if k == "delay_pull":
        return atime.DelayToPull(steps=int(spec["n"]), additional_delay=td(spec.get("x", 0)))
    if k == "delay_push":
        return atime.DelayToPush()
    if k == "nobranch":
        return _NoBranchPass()
    raise HarnessError(f"unknown adapter kind {k}")


class _NoBranchPass(fm.Adapter, fm.NoBranchAdapter):
    def _get_data(self, time, target):
        return self.pull_data(time, target)


BUFFERING = {"next", "prev", "linear", "step", "stack", "avg", "sum"}
INTEGRATING = {"avg", "sum"}
DELAYS = {"delay_fixed", "delay_pull", "delay_push"}
NOBRANCH = BUFFERING | {"delay_pull", "nobranch"}


# ---------------------------------------------------------------- harness components
class SimComp(TimeComponent):
    """Time-stepped stub.  Pulls every input at the announced next time, advances,
    publishes values unique per (output, publication index)."""

    def __init__(self, spec, world):
        super().__init__()
        self.spec = spec
        self.world = world
        self._name = spec["name"]
        self._time = dt(spec["start"])
        self.k = 0           # number of completed updates
        self.pulls = {i["name"]: [] for i in spec["inputs"] if not i.get("alarm")}
        self._mode = 0       # adaptive stepping: toggled by notifications on the alarm input while the component waits

    def _step_at(self, k):
        if self._mode and self.spec.get("adaptive"):
            return self.spec["adaptive"]["alt"]
        st = self.spec["steps"]
        return st[k % len(st)]

    def _alarm(self, caller, t):
        caller.pull_data(t)
        if tick(t) in self.spec["adaptive"]["at"]:
            self._mode ^= 1
            self.world.fault("F4_step_changed_while_waiting")

    def _next_time(self):
        if self.spec.get("next_none") and not self.spec["inputs"]:
            return None
        return self.time + td(self._step_at(self.k))

    def out_value(self, oi, k):
        o = self.spec["outputs"][oi]
        # "plateau": the value changes only every p-th publication (stretches of equal consecutive publications)
        return float(o["base"] + (k // o.get("plateau", 1)) * o.get("inc", 1))

    def _initialize(self):
        s = self.spec
        by_info = bool(self.world.sc.get("api", 0) & 1)      # slots described by Info objects instead of keywords
        for i in s["inputs"]:
            if i.get("alarm"):
                # push-based input of an adaptive model: a notification may change the length of the step the
                # component is about to do (its time stays the same, its announced next time does not)
                self.inputs.add(CallbackInput(callback=self._alarm, name=i["name"], time=self.time, grid=NoGrid(), units=None))
                continue
            if i.get("info_at_init", True) and by_info:
                self.inputs.add(name=i["name"], info=Info(time=self.time, grid=NoGrid(), units=i.get("units")),
                                static=bool(i.get("static")))
            elif i.get("info_at_init", True):
                self.inputs.add(name=i["name"], time=self.time, grid=NoGrid(), units=i.get("units"),
                                static=bool(i.get("static")))
            else:
                self.inputs.add(name=i["name"], static=bool(i.get("static")))
        for o in s["outputs"]:
            if o.get("static"):
                # a time-stepped component may own static outputs next to its dynamic ones (a parameter map, say):
                # published once while connecting, never again
                self.outputs.add(name=o["name"], time=self.time, grid=NoGrid(), units=o.get("units", ""), static=True)
            elif o.get("info_at_init", True) and by_info:
                self.outputs.add(name=o["name"], info=Info(time=self.time, grid=NoGrid(), units=o.get("units", "")))
            elif o.get("info_at_init", True):
                self.outputs.add(name=o["name"], time=self.time, grid=NoGrid(), units=o.get("units", ""))
            else:
                self.outputs.add(name=o["name"])
        self.create_connector(pull_data=[i["name"] for i in s["inputs"] if i.get("initial_pull")],
                              cache=s.get("cache", True))

    def _connect(self, start_time):
        s = self.spec
        # "info_after": the metadata of this input is only known once the initial data of the named other inputs has
        # arrived (it is derived from what the component learnt from them)
        ex = {i["name"]: Info(time=self.time, grid=NoGrid(), units=i.get("units"))
              for i in s["inputs"] if not i.get("info_at_init", True) and
              all(self.connector.in_data.get(n) is not None for n in i.get("info_after", ()))}
        pi = {o["name"]: Info(time=self.time, grid=NoGrid(), units=o.get("units", ""))
              for o in s["outputs"] if not o.get("info_at_init", True) and not o.get("static")}
        if s.get("cache") is not False and hasattr(self.world, "sc") and self.world.sc.get("api", 0) & 4:
            # "it is sufficient to provide only infos that became newly available": every Info is handed to
            # try_connect() once, in the first call in which the component knows it (the helper keeps what it could not
            # exchange or push yet)
            handed = self.__dict__.setdefault("_handed", set())
            ex = {k: v for k, v in ex.items() if ("i", k) not in handed}
            pi = {k: v for k, v in pi.items() if ("o", k) not in handed}
            handed.update(("i", k) for k in ex)
            handed.update(("o", k) for k in pi)
        pd = {o["name"]: self.out_value(oi, 0) for oi, o in enumerate(s["outputs"])}
        dep = s.get("init_dep")
        if dep:
            # initial output data is computed from the initially pulled inputs (all of them, or the named subset:
            # the component then publishes while it still waits for its other inputs)
            need = self.connector.in_data if dep is True else {k: v for k, v in self.connector.in_data.items() if k in dep}
            if not all(d is not None for d in need.values()):
                pd = {}
        self.try_connect(start_time, exchange_infos=ex, push_infos=pi, push_data=pd)
        if self.status == ComponentStatus.CONNECTED:
            for name, d in self.connector.in_data.items():
                if d is not None and not self.pulls[name]:
                    self.pulls[name].append(("init", tick(start_time), mag(d)))

    def _validate(self):
        pass

    def _pull_all(self, t):
        for ii, i in enumerate(self.spec["inputs"]):
            if i.get("alarm"):
                continue
            if self.k in i.get("skip", ()):
                self.world.fault("F3_skip_pull")
                continue
            n = 2 if self.k in i.get("dup", ()) else 1
            if n == 2:
                self.world.fault("F2_dup_pull")
            for _ in range(n):
                d = self.inputs[i["name"]].pull_data(t)
                self.pulls[i["name"]].append((self.k, tick(t), mag(d)))

    def _push_all(self, t):
        for oi, o in enumerate(self.spec["outputs"]):
            if o.get("static"):
                continue
            if self.k + 1 in o.get("nopush", ()):
                self.world.fault("F1_omission")
                continue
            self.outputs[o["name"]].push_data(self.out_value(oi, self.k + 1), t)

    def _update(self):
        t = self.time + td(self._step_at(self.k))
        # (the documented way to advance is the public `time` setter; half of the stubs use it)
        use_setter = bool(self.world.sc.get("api", 0) & 2) if hasattr(self.world, "sc") else False
        if self.spec.get("push_first"):
            if use_setter:
                self.time = t
            else:
                self._time = t
            self._push_all(t)
            self._pull_all(t)
        else:
            self._pull_all(t)
            if use_setter:
                self.time = t
            else:
                self._time = t
            self._push_all(t)
        self.k += 1
        fin = self.spec.get("finish_at")
        if fin is not None and self.k >= fin:
            self.world.fault("F10_finished_early")
            self.status = ComponentStatus.FINISHED

    def _finalize(self):
        # the component's own finalisation hook (not the public wrapper) - exactly once per run
        ins.REC and ins.REC.ev("HOOK", self._name, "finalize")


class SimPull(Component):
    """Pull-based stub: every output is a CallbackOutput returning
    base + sum(inputs pulled for the requested time)."""

    def __init__(self, spec, world):
        super().__init__()
        self.spec = spec
        self.world = world
        self._name = spec["name"]
        self.calls = []      # (output, tick)
        self.pulls = {i["name"]: [] for i in spec["inputs"]}

    def _initialize(self):
        s = self.spec
        # like every pull-based component it has no time of its own; the composition start is
        # declared on its slots so that metadata is complete whatever is linked to it
        t0 = dt(self.world.t0) if self.world.t0 is not None else None
        for i in s["inputs"]:
            self.inputs.add(name=i["name"], time=t0, grid=NoGrid(), units=i.get("units"))
        # "out_time": "unset" - the outputs take their reference time from the first consumer (which may start later
        # than the composition; requests before that time are still requests for exactly that time)
        to = None if s.get("out_time") == "unset" else t0
        for oi, o in enumerate(s["outputs"]):
            self.outputs.add(CallbackOutput(callback=lambda caller, t, oi=oi: self._provide(oi, t),
                                            name=o["name"], time=to, grid=NoGrid(),
                                            units=o.get("units", "")))
        self.create_connector(pull_data=[i["name"] for i in s["inputs"]])

    def _connect(self, start_time):
        self.try_connect(start_time)
        if self.status == ComponentStatus.CONNECTED:
            for name, d in self.connector.in_data.items():
                if d is not None and not self.pulls[name]:
                    self.pulls[name].append(("init", tick(start_time), mag(d)))

    def _validate(self):
        pass

    def _update(self):
        pass

    def _finalize(self):
        # the component's own finalisation hook (not the public wrapper) - exactly once per run
        ins.REC and ins.REC.ev("HOOK", self._name, "finalize")

    def _provide(self, oi, t):
        o = self.spec["outputs"][oi]
        tk = tick(t)
        if self.status in (ComponentStatus.VALIDATED, ComponentStatus.UPDATED):
            vals = []
            self.calls.append((o["name"], tk))
            ins.REC and ins.REC.ev("PROVIDER", self._name, o["name"], tk, ins.REC.cur_update)
            for i in self.spec["inputs"]:
                d = self.inputs[i["name"]].pull_data(t)
                self.pulls[i["name"]].append((len(self.calls) - 1, tk, mag(d)))
                vals.append(mag(d))
        else:
            ins.REC and ins.REC.ev("PROVIDER_CONNECT", self._name, o["name"], tk, None)
            if self.connector is None or not self.connector.all_data_pulled:
                return None
            vals = [mag(self.connector.in_data[i["name"]]) for i in self.spec["inputs"]]
        # "timefn": a generator-like pull-based source - its value is a function of the requested time, so it can
        # serve any request in any order
        return float(o["base"] + sum(vals)) + float(self.spec.get("timefn", 0)) * float(tk)


class SimSink(Component):
    """Push-based stub: CallbackInputs pull on every notification."""

    def __init__(self, spec, world):
        super().__init__()
        self.spec = spec
        self.world = world
        self._name = spec["name"]
        self.pulls = {i["name"]: [] for i in spec["inputs"]}

    def _initialize(self):
        for i in self.spec["inputs"]:
            self.inputs.add(CallbackInput(callback=lambda caller, t, n=i["name"]: self._notified(n, t),
                                          name=i["name"], time=None, grid=NoGrid(), units=i.get("units")))
        self.create_connector()

    def _connect(self, start_time):
        self.try_connect(start_time)

    def _notified(self, name, t):
        # like finam's DebugPushConsumer: pull on every notification, also for the initial publications
        d = self.inputs[name].pull_data(t)
        self.pulls[name].append((len(self.pulls[name]), tick(t), mag(d)))

    def _validate(self):
        pass

    def _update(self):
        pass

    def _finalize(self):
        # the component's own finalisation hook (not the public wrapper) - exactly once per run
        ins.REC and ins.REC.ev("HOOK", self._name, "finalize")


def make_wsum(spec, world):
    """the REAL library merger; spec inputs are [A, A_weight, B, B_weight, ...]"""
    from finam.components import WeightedSum
    comp = WeightedSum(inputs=[i["name"] for i in spec["inputs"][::2]])
    comp.with_name(spec["name"])
    comp.pulls = {i["name"]: [] for i in spec["inputs"]}
    return comp


class SimStatic(Component):
    """Component without time step whose outputs are static (one publication, valid for every time).  It may have
    inputs: they are pulled once while connecting and the static publication is derived from those initial values
    (a parameter field computed from another model's initial state)."""

    def __init__(self, spec, world):
        super().__init__()
        self.spec = spec
        self.world = world
        self._name = spec["name"]
        self.pulls = {i["name"]: [] for i in spec["inputs"]}
        self._generated = False

    def _initialize(self):
        # the composition start is declared (an unset time would be taken from whichever consumer exchanges
        # first, and two outputs could end up with different 'starting times')
        t0 = dt(self.world.t0) if self.world.t0 is not None else None
        for i in self.spec["inputs"]:
            self.inputs.add(name=i["name"], time=t0, grid=NoGrid(), units=i.get("units"))
        for o in self.spec["outputs"]:
            self.outputs.add(name=o["name"], time=t0, grid=NoGrid(), units=o.get("units", ""), static=True)
        self.create_connector(pull_data=[i["name"] for i in self.spec["inputs"]])

    def _connect(self, start_time):
        push = {}
        if not self._generated and self.connector.all_data_pulled:
            add = 0.0
            for i in self.spec["inputs"]:
                d = self.connector.in_data[i["name"]]
                self.pulls[i["name"]].append(("init", tick(start_time), mag(d)))
                add += mag(d)
            push = {o["name"]: float(o["base"]) + add for o in self.spec["outputs"]}
            self._generated = True
        self.try_connect(start_time, push_data=push)

    def _validate(self):
        pass

    def _update(self):
        pass

    def _finalize(self):
        # the component's own finalisation hook (not the public wrapper) - exactly once per run
        ins.REC and ins.REC.ev("HOOK", self._name, "finalize")


# ------------------------------------------------------------ real library components
def _k_of(spec, t):
    return (tick(t) - spec["start"]) // spec["steps"][0]


def make_cbgen(spec, world):
    """REAL finam.components.CallbackGenerator standing in for an input-less time-stepped producer"""
    from finam.components import CallbackGenerator
    cbs = {o["name"]: ((lambda t, o=o: float(o["base"] + (_k_of(spec, t) // o.get("plateau", 1)) * o.get("inc", 1))),
                       Info(time=None, grid=NoGrid(), units=o.get("units", ""))) for o in spec["outputs"]}
    comp = CallbackGenerator(cbs, start=dt(spec["start"]), step=td(spec["steps"][0]))
    comp.with_name(spec["name"])
    comp.pulls = {}
    return comp


def make_dbgcons(spec, world):
    """REAL finam.components.DebugConsumer standing in for an output-less time-stepped consumer"""
    from finam.components import DebugConsumer
    seen = set()

    def cb(name, data, time):
        first = name not in seen
        if not first and comp.status not in (ComponentStatus.VALIDATED, ComponentStatus.UPDATED):
            return      # DebugConsumer repeats the callback for already pulled data on every connect call
        seen.add(name)
        k = "init" if first else _k_of(spec, time) - 1
        comp.pulls[name].append((k, world.t0 if first else tick(time), mag(data)))
    comp = DebugConsumer({i["name"]: Info(time=None, grid=NoGrid(), units=i.get("units")) for i in spec["inputs"]},
                         start=dt(spec["start"]), step=td(spec["steps"][0]),
                         callbacks={i["name"]: cb for i in spec["inputs"]})
    comp.with_name(spec["name"])
    comp.pulls = {i["name"]: [] for i in spec["inputs"]}
    return comp


def make_cbcomp(spec, world):
    """REAL finam.components.CallbackComponent (inputs -> outputs, pulls everything initially)"""
    from finam.components import CallbackComponent
    state = {"init": True, "n": 0}

    def cb(inp, time):
        first = state["init"]
        state["init"] = False
        k = _k_of(spec, time)
        # a model with internal state: what it publishes depends on how often it has been evaluated (once while
        # connecting, once per step - then the count equals the step number)
        n = state["n"]
        state["n"] += 1
        if inp is not None:
            for name, d in inp.items():
                comp.pulls[name].append(("init" if first else k - 1, world.t0 if first else tick(time), mag(d)))
        return {o["name"]: float(o["base"] + (n // o.get("plateau", 1)) * o.get("inc", 1)) for o in spec["outputs"]}
    comp = CallbackComponent(inputs={i["name"]: Info(time=None, grid=NoGrid(), units=i.get("units")) for i in spec["inputs"]},
                             outputs={o["name"]: Info(time=None, grid=NoGrid(), units=o.get("units", "")) for o in spec["outputs"]},
                             callback=cb, start=dt(spec["start"]), step=td(spec["steps"][0]),
                             initial_pull=spec.get("cb_initial_pull", True))
    comp.with_name(spec["name"])
    comp.pulls = {i["name"]: [] for i in spec["inputs"]}
    return comp


KINDS = {"cbgen": make_cbgen, "dbgcons": make_dbgcons, "cbcomp": make_cbcomp, "sim": SimComp, "pull": SimPull, "sink": SimSink, "wsum": make_wsum, "static": SimStatic}


# ----------------------------------------------------------------------------- world
class World:
    """One live composition built from a scenario."""

    def __init__(self, scenario, scratch=None):
        self.sc = scenario
        self.faults = {}
        self.comps = []
        self.adapters = {}   # (link index, position) -> adapter
        self.labels = {}
        self.rec = None
        self.scratch = scratch
        self.composition = None
        sims = [c for c in scenario["components"] if c["kind"] == "sim"]
        self.t0 = min(c["start"] for c in sims) if sims else scenario.get("t0")

    def fault(self, kind):
        self.faults[kind] = self.faults.get(kind, 0) + 1

    def build(self, comp_factory=None):
        sc = self.sc
        for ci, c in enumerate(sc["components"]):
            cls = KINDS[c.get("impl") or c["kind"]] if comp_factory is None else \
                (comp_factory(c) or KINDS[c.get("impl") or c["kind"]])
            if c.get("impl"):
                self.fault("real_component_" + c["impl"])
            comp = cls(c, self)
            self.comps.append(comp)
            self.labels[id(comp)] = c["name"]
        listing = sc.get("listing") or list(range(len(self.comps)))
        if listing != sorted(listing):
            self.fault("F7_listing_permuted")
        kw = {}
        if sc.get("mem_limit") is not None:
            kw["slot_memory_limit"] = sc["mem_limit"]
            kw["slot_memory_location"] = self.scratch
        else:
            kw["slot_memory_location"] = None
        self.rec = ins.Recorder(labels=self.labels, tick_of=tick,
                                max_updates=sc.get("max_updates", 10**9),
                                max_connects=sc.get("max_connects", 10**9))
        ins.install(self.rec)
        self.rec.phase = "init"
        self.composition = Composition([self.comps[i] for i in listing if i not in sc.get("left_out", ())],
                                       print_log=False, log_level=50, **kw)
        for ci, comp in enumerate(self.comps):
            if ci in sc.get("left_out", ()):
                comp.initialize()
            for n, o in comp.outputs.items():
                self.labels[id(o)] = f"{comp.name}.{n}"
            for n, i in comp.inputs.items():
                self.labels[id(i)] = f"{comp.name}.{n}"
        order = sc.get("link_order") or list(range(len(sc["links"])))
        if order != sorted(order):
            self.fault("F7_links_permuted")
        def adapter_for(li, pi):
            """adapter instance at position pi of link li; a shared prefix (fan-out at an adapter) refers to
            the instances of the base link"""
            ln = sc["links"][li]
            if pi < ln.get("shared_len", 0):
                return adapter_for(ln["shared_with"], pi)
            if (li, pi) not in self.adapters:
                a = ln["chain"][pi]
                ad = make_adapter(a, alt=bool(sc.get("api", 0) & 4))
                ad.with_name(f"L{li}a{pi}_{a['kind']}")
                ol = sc.get("own_limit")
                if ol and [li, pi] == ol["at"]:
                    # the documented per-slot override: a limit of its own, the location still comes from the composition
                    ad.memory_limit = ol["limit"]
                self.adapters[(li, pi)] = ad
                self.labels[id(ad)] = f"L{li}.a{pi}"
            return self.adapters[(li, pi)]

        short = bool(sc.get("api", 0) & 2)      # comp["slot"] and .chain() instead of comp.outputs["slot"] and >>
        for li in order:
            ln = sc["links"][li]
            src = self.comps[ln["src"][0]]
            oname = sc["components"][ln["src"][0]]["outputs"][ln["src"][1]]["name"]
            cur = src[oname] if short else src.outputs[oname]
            for pi, a in enumerate(ln["chain"]):
                ad = adapter_for(li, pi)
                if ad.source is None:
                    if short:
                        cur.chain(ad)
                    else:
                        cur >> ad
                cur = ad
            if ln.get("dst") is not None:
                dst = self.comps[ln["dst"][0]]
                iname = sc["components"][ln["dst"][0]]["inputs"][ln["dst"][1]]["name"]
                if short:
                    cur.chain(dst[iname])
                else:
                    cur >> dst.inputs[iname]
        return self

    def run(self):
        """connect + run.  Returns ('ok', None) or ('exc', exception)."""
        sc = self.sc
        start = dt(min(c["start"] for c in sc["components"] if c["kind"] == "sim")) \
            if sc.get("start_given") and any(c["kind"] == "sim" for c in sc["components"]) else None
        has_time = any(c["kind"] == "sim" for ci, c in enumerate(sc["components"])
                       if ci not in sc.get("left_out", ()))
        try:
            self.rec.phase = "connect"
            if sc.get("run_only"):
                # run() performs the connect phase itself
                self.composition.run(start_time=start, end_time=dt(sc["end"]) if has_time else None)
            else:
                self.composition.connect(start)
                self.rec.phase = "run"
                self.composition.run(end_time=dt(sc["end"]) if has_time else None)
            self.rec.phase = "done"
            return "ok", None
        except BudgetExceeded as e:
            return "budget", e
        except RecursionError as e:
            return "exc", e
        except Exception as e:
            return "exc", e
        finally:
            ins.uninstall()

    def connect_only(self):
        sc = self.sc
        try:
            self.rec.phase = "connect"
            self.composition.connect(None)
            self.rec.phase = "connected"
            return "ok", None
        except BudgetExceeded as e:
            return "budget", e
        except Exception as e:
            return "exc", e
        finally:
            ins.uninstall()


def scratch_dir():
    base = os.environ.get("VERIF_SCRATCH", "/dev/shm")
    d = os.path.join(base, f"finam-verif-{os.getpid()}")
    os.makedirs(d, exist_ok=True)
    return d


def clean_scratch(d):
    shutil.rmtree(d, ignore_errors=True)
