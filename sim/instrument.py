"""Class-level instrumentation of public finam classes (no source change).

A single module-global recorder `REC` (None = pass-through) receives a totally
ordered event log.  Events carry only scenario labels, ticks and plain values,
so the log (and its digest) is identical across processes and hash seeds.
"""
from . import bootstrap  # noqa: F401
import finam
from finam.sdk.component import Component
from finam.sdk.output import Output, CallbackOutput
from finam.sdk.adapter import Adapter, TimeDelayAdapter
from finam.interfaces import ITimeComponent
from finam.errors import FinamNoDataError

from .core import BudgetExceeded

REC = None


class Recorder:
    def __init__(self, labels=None, tick_of=None, max_updates=10**9, max_connects=10**9):
        self.events = []            # (seq, kind, ...)
        self.labels = labels if labels is not None else {}   # id(obj) -> label
        self.tick_of = tick_of or (lambda t: t)
        self.cur_update = None      # label of the component inside update()
        self.depth = 0
        self.n_updates = 0
        self.n_connects = {}
        self.max_updates = max_updates
        self.max_connects = max_connects
        self.on_update_enter = None  # callback(comp) -> snapshot payload
        self.update_exc = None
        self.phase = "build"

    def lab(self, obj):
        return self.labels.get(id(obj), None)

    def ev(self, *a):
        self.events.append(a)


def install(rec):
    global REC
    REC = rec


def uninstall():
    global REC
    REC = None


def _wrap(cls, name, make):
    orig = cls.__dict__[name]
    new = make(orig)
    new.__wrapped__ = orig
    new.__name__ = getattr(orig, "__name__", name)
    setattr(cls, name, new)


# ---------------------------------------------------------------- component life cycle
def _mk_update(orig):
    def update(self):
        r = REC
        if r is None or r.lab(self) is None:
            return orig(self)
        r.n_updates += 1
        if r.n_updates > r.max_updates:
            raise BudgetExceeded(f"more than {r.max_updates} updates")
        lab = r.lab(self)
        snap = r.on_update_enter(self) if r.on_update_enter else None
        r.ev("UPDATE_ENTER", lab, snap)
        prev = r.cur_update
        r.cur_update = lab
        try:
            res = orig(self)
        except BudgetExceeded:
            raise
        except BaseException as e:
            if r.update_exc is None:
                r.update_exc = (lab, type(e).__name__, str(e)[:300])
            r.ev("UPDATE_RAISE", lab, type(e).__name__)
            raise
        finally:
            r.cur_update = prev
        r.ev("UPDATE_EXIT", lab, r.tick_of(self.time) if isinstance(self, ITimeComponent) else None)
        return res
    return update


def _mk_lifecycle(kind):
    def make(orig):
        def method(self, *a, **k):
            r = REC
            if r is None or r.lab(self) is None:
                return orig(self, *a, **k)
            lab = r.lab(self)
            if kind == "connect":
                n = r.n_connects.get(lab, 0) + 1
                r.n_connects[lab] = n
                if n > r.max_connects:
                    raise BudgetExceeded(f"more than {r.max_connects} connect calls on {lab}")
            r.ev("LIFECYCLE", lab, kind)
            res = orig(self, *a, **k)
            r.ev("LIFECYCLE_DONE", lab, kind, self.status.name)
            return res
        return method
    return make


# ---------------------------------------------------------------------------- slots
def _mk_get(cls_kind):
    def make(orig):
        def get_data(self, time, target):
            r = REC
            if r is None or r.lab(self) is None:
                return orig(self, time, target)
            lab = r.lab(self)
            tk = r.tick_of(time) if time is not None else None
            newest = None
            if cls_kind == "output":
                newest = r.tick_of(self.time) if self.time is not None else None
            r.ev("GET", lab, tk, r.lab(target), r.cur_update, newest, r.phase)
            try:
                res = orig(self, time, target)
            except BudgetExceeded:
                raise
            except FinamNoDataError:
                r.ev("GET_NODATA", lab, tk)
                raise
            except BaseException as e:
                r.ev("GET_RAISE", lab, tk, type(e).__name__, r.cur_update)
                raise
            return res
        return get_data
    return make


def _mk_push(orig):
    def push_data(self, data, time):
        r = REC
        if r is None or r.lab(self) is None:
            return orig(self, data, time)
        lab = r.lab(self)
        tk = r.tick_of(time) if time is not None else None
        r.ev("PUSH", lab, tk, r.cur_update, r.phase)
        return orig(self, data, time)
    return push_data


def _mk_adapter_finalize(orig):
    def finalize(self):
        r = REC
        if r is not None and r.lab(self) is not None:
            r.ev("ADAPTER_FINALIZE", r.lab(self))
        return orig(self)
    return finalize


_installed = False


def patch_classes():
    global _installed
    if _installed:
        return
    _installed = True
    _wrap(Component, "update", _mk_update)
    for k in ("initialize", "connect", "validate", "finalize"):
        _wrap(Component, k, _mk_lifecycle(k))
    _wrap(Output, "get_data", _mk_get("output"))
    _wrap(CallbackOutput, "get_data", _mk_get("cbout"))
    _wrap(Adapter, "get_data", _mk_get("adapter"))
    _wrap(TimeDelayAdapter, "get_data", _mk_get("delay"))
    _wrap(Output, "push_data", _mk_push)
    _wrap(Adapter, "finalize", _mk_adapter_finalize)


patch_classes()
