"""Family SH - metadata objects that are SHARED and REUSED the way user scripts do it.

One to three real `CallbackGenerator`s, each on a grid of its own (or without grid) and with units of its own, feed the
inputs of one real `DebugConsumer` over direct links.  The metadata objects are created once per scenario:

* every producer output has its `Info`,
* the consumer's inputs are declared with ONE request `Info` ("take whatever the source has": grid unset, units unset or
  one convertible unit) shared by all of them - or with one `Info` each,

and the composition is then built and run once or twice in the same process from these very objects (fresh components,
the second run with another start time - earlier or later).  A request is never a statement about one particular source:
whatever an earlier exchange or an earlier run did must not change what a slot asks for or announces.

Oracles (judged per run, from the records of the consumer's callbacks):
  sh-run-raises   connect()/run() of this valid, acyclic composition raised
  sh-info         after connect an input's metadata does not carry its own source's grid / the units asked for
  sh-value        a delivered array is not the array its source published for the requested time (shape, values)
  sh-units        delivered units are not the units asked for (or the source's, where nothing was asked for), or the
                  numbers are not the published ones times the conversion factor
"""
from datetime import datetime, timedelta

import numpy as np

import finam as fm
from finam.components import CallbackGenerator, DebugConsumer

from .core import digest_of
from .grids import gen_structured, make_grid

T0 = datetime(2000, 1, 1)
UF = {"m": 1.0, "km": 1000.0, "mm": 0.001, "": 1.0, "K": 1.0}
NAMES = {"m": ("m", "meter"), "km": ("km", "kilometer"), "mm": ("mm", "millimeter"), "": ("", "dimensionless"),
         "K": ("K", "kelvin")}


class _Relay(fm.Component):
    """a user-written pull-based component: Out(t) = In(t) * Factor, Factor being a static scalar; its two inputs are
    declared with the Info objects it is given (possibly one and the same)"""

    def __init__(self, in_info, factor_info):
        super().__init__()
        self._in_info, self._f_info = in_info, factor_info
        self._in_data = None
        self.asked = []

    def _initialize(self):
        self.inputs.add(name="In", info=self._in_info)
        self.inputs.add(name="Factor", info=self._f_info, static=True)
        self.outputs.add(fm.CallbackOutput(callback=self._get, name="Out"))
        self.create_connector(pull_data=["In", "Factor"])

    def _connect(self, start_time):
        pi = {}
        inf = self.connector.in_infos["In"]
        if inf is not None and not self.connector.infos_pushed["Out"]:
            pi["Out"] = inf.copy_with()
        self.try_connect(start_time, push_infos=pi)
        if self.connector.all_data_pulled:
            self._in_data = self.connector.in_data

    def _validate(self):
        pass

    def _update(self):
        pass

    def _finalize(self):
        pass

    def _get(self, _caller, time):
        if self._in_data is None:
            return None
        if self.status == fm.ComponentStatus.VALIDATED:
            self.asked.append(time)
            self._in_data = {n: i.pull_data(time) for n, i in self.inputs.items()}
        x = fm.data.strip_time(self._in_data["In"], self.inputs["In"].info.grid)
        return x * float(np.asarray(self._in_data["Factor"].magnitude).reshape(-1)[0])


def gen_shared(tape):
    n = tape.weighted([(2, 5), (3, 2), (1, 1)])
    req_units = tape.weighted([(None, 4), ("m", 1), ("km", 1)])
    prods = []
    for k in range(n):
        g = None if tape.chance(1, 3) else gen_structured(tape, max_dim=2, max_len=4, kinds=("uniform", "rectilinear"))
        if req_units is None:
            u = tape.choice(["m", "km", "mm", "", "K"])
        else:
            u = tape.choice(["m", "km", "mm"])
        prods.append({"grid": g, "units": u, "base": 1000.0 * (k + 1)})
    runs = [{"start": tape.choice([0, 24, 72]), "span": tape.rng_int(3, 8)}]
    if tape.chance(1, 2):
        runs.append({"start": tape.choice([0, 24, 48, 96, 720]), "span": tape.rng_int(3, 8)})
    return {"engine": "SH", "producers": prods, "req_units": req_units, "share": not tape.chance(1, 4),
            "cstep": tape.choice([1, 2, 3]), "runs": runs, "consumer_first": tape.chance(1, 2),
            # the first producer is read through a pull-based component that multiplies with a static scalar; its two
            # inputs are declared with the shared request Info as well
            "relay": tape.chance(1, 3)}


def _published(p, G, hours):
    shape = tuple(G.data_shape) if not isinstance(G, fm.NoGrid) else ()
    size = int(np.prod(shape)) if shape else 1
    arr = p["base"] + hours + 0.01 * np.arange(size, dtype=float)
    return arr.reshape(shape, order=G.order) if shape else float(arr[0])


def run_shared(sc):
    viol = []

    def v(oracle, kind, msg):
        viol.append({"oracle": oracle, "kind": kind, "msg": msg + f"; scenario {short(sc)}"})

    prods = sc["producers"]
    grids = [make_grid(p["grid"]) if p["grid"] else fm.NoGrid() for p in prods]
    out_infos = [fm.Info(time=None, grid=G, units=p["units"]) for p, G in zip(prods, grids)]
    shared = fm.Info(time=None, grid=None, units=sc["req_units"])
    in_infos = [shared if sc["share"] else fm.Info(time=None, grid=None, units=sc["req_units"]) for _ in prods]
    log = []
    n_rec = 0
    for ri, run in enumerate(sc["runs"]):
        start = T0 + timedelta(hours=run["start"])
        gens = []
        for k, (p, G) in enumerate(zip(prods, grids)):
            gens.append(CallbackGenerator(
                {"o": (lambda t, p=p, G=G: _published(p, G, (t - T0).total_seconds() / 3600.0), out_infos[k])},
                start, timedelta(hours=1)).with_name(f"g{k}"))
        got = []
        cons = DebugConsumer({f"i{k}": in_infos[k] for k in range(len(prods))}, start=start,
                             step=timedelta(hours=sc["cstep"]),
                             callbacks={f"i{k}": (lambda n, d, t: got.append((n, t, d))) for k in range(len(prods))})
        cons.with_name("cons")
        comps = [cons] + gens if sc["consumer_first"] else gens + [cons]
        relay = None
        if sc.get("relay") and sc["req_units"] is None:
            relay = _Relay(shared if sc["share"] else fm.Info(time=None, grid=None, units=None),
                           shared if sc["share"] else fm.Info(time=None, grid=None, units=None)).with_name("relay")
            wgen = fm.components.StaticCallbackGenerator(
                {"w": (lambda: 2.0, fm.Info(time=None, grid=fm.NoGrid(), units=""))}).with_name("wgen")
            comps = ([relay, wgen] + comps) if sc["consumer_first"] else (comps + [wgen, relay])
        try:
            comp = fm.Composition(comps, print_log=False, log_level=50)
            for k, g in enumerate(gens):
                if k == 0 and relay is not None:
                    g.outputs["o"] >> relay.inputs["In"]
                    wgen.outputs["w"] >> relay.inputs["Factor"]
                    relay.outputs["Out"] >> cons.inputs["i0"]
                else:
                    g.outputs["o"] >> cons.inputs[f"i{k}"]
            comp.connect(start)
            for k in range(len(prods)):
                inf = cons.inputs[f"i{k}"].info
                if not grids[k].compatible_with(inf.grid) or type(inf.grid) is not type(grids[k]):
                    v("sh-info", "grid", f"run {ri}: input i{k} carries grid {inf.grid}, its source has {grids[k]}")
                want_u = sc["req_units"] if sc["req_units"] is not None else prods[k]["units"]
                if not fm.data.tools.equivalent_units(inf.units, want_u):
                    v("sh-info", "units", f"run {ri}: input i{k} carries units {inf.units}, expected {want_u!r}")
            comp.run(end_time=start + timedelta(hours=run["span"]))
        except Exception as e:      # noqa: BLE001
            v("sh-run-raises", type(e).__name__, f"run {ri} (start hour {run['start']}): {type(e).__name__}: {str(e)[:300]}")
            break
        for (name, t, d) in got:
            k = int(name[1:])
            hours = (t - T0).total_seconds() / 3600.0
            want = np.asarray(_published(prods[k], grids[k], hours), dtype=float)
            if k == 0 and relay is not None:
                want = want * 2.0
            want_u = sc["req_units"] if sc["req_units"] is not None else prods[k]["units"]
            f = UF[prods[k]["units"]] / UF[want_u]
            mag = np.asarray(d.magnitude, dtype=float)
            log.append((ri, name, hours, float(mag.reshape(-1)[0])))
            n_rec += 1
            if mag.shape != (1,) + want.shape:
                v("sh-value", "shape", f"run {ri}: {name} at hour {hours}: shape {mag.shape}, published {(1,) + want.shape}")
                break
            if str(d.units) not in NAMES[want_u] and not fm.data.tools.equivalent_units(d.units, want_u):
                v("sh-units", "label", f"run {ri}: {name} at hour {hours}: delivered in {d.units}, expected {want_u!r}")
                break
            if not np.allclose(mag[0], want * f, rtol=1e-9, atol=1e-9):
                v("sh-units" if f != 1.0 and np.allclose(mag[0], want, rtol=1e-9) else "sh-value", "value",
                  f"run {ri}: {name} at hour {hours}: got {mag.reshape(-1)[:3].tolist()}, its source published "
                  f"{(want * f).reshape(-1)[:3].tolist()} for that time")
                break
        if viol:
            break
        steps = run["span"] // sc["cstep"] + (1 if run["span"] % sc["cstep"] else 0)
        if relay is not None:
            want_t = [start + timedelta(hours=sc["cstep"] * (j + 1)) for j in range(steps)]
            if relay.asked != want_t:
                v("sh-value", "provider-time", f"run {ri}: the pull-based component was asked for "
                  f"{[str(t) for t in relay.asked][:6]}, its consumer requested {[str(t) for t in want_t][:6]}")
                break
        if len(got) < len(prods) * (steps + 1):
            v("sh-value", "missing", f"run {ri}: {len(got)} records for {len(prods)} inputs and {steps} steps (+1 initial)")
            break
    return {"violations": viol, "digest": digest_of(log), "nontrivial": n_rec >= 4 and len(prods) >= 2,
            "faults": {}, "probes": {"shared_request_info": int(sc["share"] and len(prods) >= 2),
                                     "compositions_from_the_same_infos": len(sc["runs"]), "shared_family_runs": 1,
                                     "pull_based_relay_with_shared_infos": int(bool(sc.get("relay")) and sc["req_units"] is None)},
            "sig": digest_of([sc["share"], len(sc["runs"]), [bool(p["grid"]) for p in prods]]), "cls": "SH:" + ("ok" if not viol else "viol"),
            "sim_hours": sum(r["span"] for r in sc["runs"]),
            "outcome": {"family": "shared", "records": n_rec}}


def short(sc):
    return {"producers": [{"grid": (p["grid"] or {}).get("dims"), "units": p["units"]} for p in sc["producers"]],
            "req_units": sc["req_units"], "share": sc["share"], "runs": sc["runs"], "cstep": sc["cstep"],
            "consumer_first": sc["consumer_first"]}
