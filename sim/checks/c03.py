"""C03 - a run terminates, reaches the end time, and walks each life cycle once."""
from .. import bootstrap  # noqa: F401
from ..gen import gen_e1, gen_e1_long
from ..monitor import run_e1
from ..findings import e1_known_sig

ID = "C03"
LEVEL = "exploration"
ENGINE = "E1"
QUICK_RUNS = 6000
THOROUGH_RUNS = 400000
QUICK_WALL = 100
THOROUGH_WALL = 900
HANG_IS_VIOLATION = True
OWN = {"update-budget", "lifecycle-order", "end-not-reached", "update-after-end",
       "adapter-finalize-count", "time-not-increasing", "wall-hang", "run-raises"}
RULE = ("valid random compositions (as C01) with end times on and off every step grid and leaf components "
        "that report FINISHED early; oracles over the recorded call history; non-trivial = run completed with "
        ">= 3 updates; distinct = distinct event-log digest")
REAL = ["Composition", "Input", "Output", "CallbackOutput", "all adapters", "ConnectHelper", "Info", "units"]
STUB = ["SimComp (time-stepped)", "SimPull (pull-based)"]
ASSUMPTIONS = [
    "producers are never silent for more than 3 consecutive steps and eventually publish again",
    "update budget = 4 x analytic bound computed from steps, omissions and horizon",
    "stub components are trusted",
]


def generate(tape, tier="quick"):
    if tape.chance(1, 20):
        # compositions of real library components only (sim/library.py)
        from ..library import gen_library
        return gen_library(tape)
    if tape.chance(1, 25):
        # real library components stepping with relativedelta (months from a month-end day, mixed with days)
        from ..calendar import gen_calendar
        return gen_calendar(tape)
    if tape.chance(1, 120):
        return gen_e1_long(tape)
    return gen_e1(tape, tier, allow_finish=True)


RULE = RULE + (" A 1/25 share of the runs is the calendar family (sim/calendar.py): real CallbackGenerator -> [Scale | "
               "DelayFixed] -> real CallbackComponent(s) stepping with relativedelta months/days from month-end start days, "
               "judged without a model (announced time == model time == time after the update; received publication is the "
               "one for the requested time; run ends at or beyond the end time).")
REAL = list(REAL) + ["CallbackGenerator / CallbackComponent with relativedelta steps (calendar family)"]
LIB_OWN = ('lib-run-raises', 'lib-status', 'lib-end-not-reached', 'lib-file')
RULE = RULE + (" A 1/20 share is the library family (sim/library.py): CallbackGenerator | CsvReader (real file, irregular rows) -> "
               "[WeightedSum with a static weight] -> [TimeTrigger] -> DebugConsumer / CsvWriter (file read back) / "
               "DebugPushConsumer / ScheduleLogger, direct or through Scale; oracles here: run() returns, every component ends FINALIZED, time components reach the end unless the reader ran out of rows (it then reports FINISHED), the writer's file has one row per step.")
REAL = list(REAL) + ["CsvReader, CsvWriter, TimeTrigger, WeightedSum, StaticCallbackGenerator, DebugPushConsumer, ScheduleLogger (library family)"]
CAL_OWN = ('cal-run-raises', 'cal-time-not-increasing', 'cal-end-not-reached')

RULE = RULE + (' A 1/120 share is the large family (gen.gen_e1_long): a series of 14-70 components each reading its upstream neighbour while connecting, listed downstream-first / upstream-first / shuffled, or an hourly producer read through a delay of 130-260 hours by a slow consumer (and directly by a prompt one).')


def execute(sc):
    if sc.get("engine") == "L":
        from ..library import run_library
        r = run_library(sc)
        r["violations"] = [v for v in r["violations"] if v["oracle"] in LIB_OWN]
        return r
    if sc.get("engine") == "K":
        from ..calendar import run_calendar
        r = run_calendar(sc)
        r["violations"] = [v for v in r["violations"] if v["oracle"] in CAL_OWN]
        return r
    r = run_e1(sc)
    obs = r["obs"]
    viol = [v for v in r["violations"] if v["oracle"] in OWN]
    if obs["status"] == "exc":
        # every generated composition is valid: run() must return
        comp = ctx = None
        for v in r["violations"]:
            if v["oracle"] in ("update-raises", "update-raises-other"):
                comp, ctx = v.get("comp"), v.get("shared_ctx")
        viol.append({"oracle": "run-raises", "kind": obs["exc"], "comp": comp or "", "shared_ctx": ctx,
                     "msg": f"run() of a valid composition raised {obs['exc']}: {obs['exc_msg']}"})
    return {"violations": viol, "digest": r["digest"], "faults": r["faults"], "probes": r["probes"],
            "nontrivial": obs["status"] == "ok" and obs["n_updates"] >= 3,
            "sig": r["sig"], "state_sigs": r["state_sigs"], "sim_hours": r["sim_hours"],
            "cls": obs["status"] if obs["status"] != "exc" else obs["exc"],
            "outcome": {"status": obs["status"], "exc": obs["exc"], "final_times": obs["final_times"],
                        "updates": obs["n_updates"]}}


def known_sig(sc, v):
    if sc.get("engine") in ("K", "L"):
        return None
    return e1_known_sig(sc, v)
