"""C18 - masked data: compression round-trips and mask rules are as documented."""
from .. import bootstrap  # noqa: F401
from ..core import digest_of
from ..grids import gen_structured, relayout, make_grid, MGrid
from ..world import dt

import numpy as np
from finam import Info, Input, Output, Mask, NoGrid
from finam.data import tools
from finam.errors import FinamMetaDataError

ID = "C18"
LEVEL = "exploration"
ENGINE = "E3"
QUICK_RUNS = 12000
THOROUGH_RUNS = 1200000
QUICK_WALL = 100
THOROUGH_WALL = 900
CHUNK = 200
RULE = ("two families: (R) arrays of 1-3 dimensions (lengths 1-5), both memory orders, masks none / nomask / empty / "
        "partial / full, plain and quantified: from_compressed(to_compressed(x)) restores the unmasked values at "
        "their positions and prepare() under a fixed-mask Info yields exactly that mask; (A) the connect acceptance "
        "table on a REAL link: consumer mask FLEX / NONE / fixed x producer mask FLEX / NONE / fixed (equal, equal in "
        "another layout, different) x consumer grid set / another layout / unset, followed by a masked publication "
        "and pull when accepted. non-trivial = partial mask with >= 2 dims (R) or both masks specified (A); "
        "distinct = digest of the scenario")
REAL = ["to_compressed", "from_compressed", "prepare", "masks_compatible", "masks_equal", "Info.accepts", "Input", "Output"]
STUB = ["operation driver"]
ASSUMPTIONS = ["a NONE consumer connected to a producer that declares numpy's nomask is left unspecified (only "
               "'success or metadata error' is checked)",
               "prepare() is checked for plain data and for data already carrying the demanded mask"]
LEVEL_NOTE = ("input/configuration space; the simulator contributes the seeded swarm and the execution of the acceptance "
              "table on real links in both exchange directions; trusted base: numpy")


def gen_mask(tape, shape, kind):
    n = int(np.prod(shape))
    if kind == "empty":
        bits = [0] * n
    elif kind == "full":
        bits = [1] * n
    else:
        bits = [1 if tape.chance(1, 3) else 0 for _ in range(n)]
        if n > 1 and not any(bits):
            bits[tape.draw(n)] = 1
        if n > 1 and all(bits):
            bits[tape.draw(n)] = 0
    return bits


def generate(tape, tier="quick"):
    if tape.chance(1, 2):
        nd = tape.rng_int(1, 3)
        shape = [tape.rng_int(1, 5) for _ in range(nd)]
        mk = tape.weighted([("partial", 6), ("none", 1), ("nomask", 1), ("empty", 1), ("full", 1)])
        return {"engine": "R", "shape": shape, "order": tape.choice(["C", "F"]), "mask_kind": mk,
                "mask": gen_mask(tape, shape, mk) if mk in ("partial", "empty", "full") else None,
                "quantified": tape.chance(1, 2), "masked_input": tape.chance(1, 2),
                # the metadata object was already used (data prepared under it) with an open mask before the mask was
                # fixed through its setter - and is opened again afterwards
                "info_reuse": tape.chance(1, 3)}
    a = gen_structured(tape, max_dim=2, max_len=4, kinds=("uniform", "rectilinear", "esri"))
    if tape.chance(1, 100):
        # large grids now and then (masks of more than a thousand cells that differ in one cell somewhere)
        a = gen_structured(tape, dim=2, min_len=34, max_len=60, kinds=("uniform",))
    cg = tape.weighted([("same", 3), ("relayout", 4), ("unset", 3)])
    b = dict(a) if cg == "same" else (relayout(tape, a) if cg == "relayout" else None)
    ma = MGrid(a)
    shape = ma.data_shape()
    # "nomask" (numpy's nomask) and "all_false" (an explicit array without any masked cell) are fixed masks that mask
    # nothing: they equal each other and any fixed mask without masked cells
    pm = tape.weighted([("fixed", 6), ("FLEX", 2), ("NONE", 2), ("nomask", 1), ("all_false", 1)])
    cm = tape.weighted([("fixed_equal", 5), ("fixed_diff", 3), ("FLEX", 2), ("NONE", 2), ("same_object", 2),
                        ("nomask", 1), ("all_false", 1)])
    pbits = gen_mask(tape, shape, "partial")
    return {"engine": "A", "a": a, "b": b, "cgrid": cg, "pmask": pm, "cmask": cm, "pbits": pbits,
            "flip": tape.draw(max(1, len(pbits)))}


def run_roundtrip(sc):
    viol = []

    def v(oracle, kind, msg):
        viol.append({"oracle": oracle, "kind": kind, "msg": msg})

    shape = tuple(sc["shape"])
    order = sc["order"]
    n = int(np.prod(shape))
    data = (np.arange(n, dtype=float) * 1.5 + 7.0).reshape(shape)
    mk = sc["mask_kind"]
    mask = None
    if mk in ("partial", "empty", "full"):
        mask = np.array(sc["mask"], dtype=bool).reshape(shape)
    elif mk == "nomask":
        mask = np.ma.nomask
    if sc["masked_input"] and mk != "none":
        x = np.ma.array(data.copy(), mask=mask, shrink=False) if mask is not np.ma.nomask else np.ma.array(data.copy())
        arg_mask = None
    else:
        x = data.copy()
        arg_mask = mask
    if sc["quantified"]:
        x = tools.UNITS.Quantity(x, "m")
    try:
        c = tools.to_compressed(x, order=order, mask=arg_mask) if arg_mask is not None else tools.to_compressed(x, order=order)
        y = tools.from_compressed(c, shape, order=order, mask=mask)
    except Exception as e:
        v("mask-roundtrip", type(e).__name__, f"{sc}: {type(e).__name__}: {e}")
        return viol
    cm = c.magnitude if hasattr(c, "magnitude") else c
    ym = y.magnitude if hasattr(y, "magnitude") else y
    keep = np.ones(shape, dtype=bool) if mask is None or mask is np.ma.nomask else ~mask
    want_c = data.ravel(order=order)[keep.ravel(order=order)]
    if np.shape(cm) != want_c.shape or not np.array_equal(np.asarray(cm), want_c):
        v("mask-roundtrip", "compressed", f"{sc}: compressed data {np.asarray(cm).tolist()} expected {want_c.tolist()}")
    if np.shape(ym) != shape:
        v("mask-roundtrip", "shape", f"{sc}: expanded shape {np.shape(ym)}")
        return viol
    yd = np.ma.getdata(ym)
    if not np.array_equal(yd[keep], data[keep]):
        v("mask-roundtrip", "values", f"{sc}: expanded values differ at unmasked positions")
    if mask is not None and mask is not np.ma.nomask:
        if not np.ma.isMaskedArray(ym) or not np.array_equal(np.ma.getmaskarray(ym), mask):
            v("mask-roundtrip", "mask", f"{sc}: expanded mask differs from the given mask")
    if sc["quantified"] and (not hasattr(y, "units") or y.units != tools.UNITS.Unit("m")):
        v("mask-roundtrip", "units", f"{sc}: units lost")
    # prepare under a fixed mask
    if mk in ("partial", "empty", "full") and len(shape) >= 1:
        info = Info(time=None, grid=NoGrid(dim=len(shape), data_shape=shape), mask=mask, units="m")
        if sc.get("info_reuse"):
            info = Info(time=None, grid=NoGrid(dim=len(shape), data_shape=shape), mask=Mask.FLEX, units="m")
            try:
                tools.prepare(data.copy(), info)
            except Exception:      # noqa: BLE001
                pass
            info.mask = mask
        payloads = [(data.copy(), 1.0), (np.ma.array(data.copy(), mask=mask, shrink=False), 1.0),
                    # quantified, unmasked, in foreign units: converted AND masked
                    (tools.UNITS.Quantity(data.copy(), "km"), 1000.0), (tools.UNITS.Quantity(data.copy(), "m"), 1.0),
                    # array-likes that are no numpy arrays (what a model callback may well return), data that already
                    # carries its time axis, a forced copy
                    (data.tolist(), 1.0), (tuple(map(tuple, data.tolist())) if data.ndim == 2 else tuple(data.tolist()), 1.0),
                    (data.copy()[np.newaxis, ...], 1.0), ((data.copy(), "force_copy"), 1.0),
                    ((np.ma.array(data.copy(), mask=mask, shrink=False), "force_copy"), 1.0),
                    ((tools.UNITS.Quantity(data.copy(), "m"), "force_copy"), 1.0),
                    ((tools.UNITS.Quantity(data.copy(), "km"), "force_copy"), 1000.0)]
        for payload, fac in payloads:
            try:
                if isinstance(payload, tuple) and len(payload) == 2 and isinstance(payload[1], str):
                    p = tools.prepare(payload[0], info, force_copy=True)
                    raw = payload[0].magnitude if hasattr(payload[0], "magnitude") else payload[0]
                    if np.shares_memory(np.ma.getdata(p.magnitude), np.ma.getdata(raw)):
                        v("mask-prepare", "force_copy", f"{sc}: prepare(force_copy=True) handed back the caller's own memory")
                else:
                    p = tools.prepare(payload, info)
            except Exception as e:
                v("mask-prepare", type(e).__name__, f"{sc}: prepare raised {type(e).__name__}: {e}")
                continue
            pm = p.magnitude
            if not np.ma.isMaskedArray(pm) or not np.array_equal(np.ma.getmaskarray(pm)[0], mask):
                v("mask-prepare", "mask", f"{sc}: prepare() under a fixed mask did not apply exactly that mask")
            elif not np.allclose(np.ma.getdata(pm)[0][~mask], data[~mask] * fac, rtol=1e-12) or p.units != tools.UNITS.Unit("m"):
                v("mask-prepare", "values", f"{sc}: prepare() under a fixed mask delivered wrong values/units "
                  f"(payload {'quantity x' + str(fac) if fac != 1.0 or hasattr(payload, 'units') else 'plain'})")
        if sc.get("info_reuse") and not viol:
            info.mask = Mask.NONE
            try:
                p = tools.prepare(data.copy(), info)
                if np.ma.isMaskedArray(p.magnitude) and np.ma.getmaskarray(p.magnitude).any():
                    v("mask-prepare", "reopened", f"{sc}: metadata set back to 'no mask' still masks the prepared data")
            except Exception as e:      # noqa: BLE001
                v("mask-prepare", type(e).__name__, f"{sc}: prepare under metadata set back to 'no mask' raised {type(e).__name__}: {e}")
    return viol


def run_accept(sc):
    viol = []

    def v(oracle, kind, msg):
        viol.append({"oracle": oracle, "kind": kind, "msg": msg})

    ga = make_grid(sc["a"])
    ma = MGrid(sc["a"])
    shape = ma.data_shape()
    pbits = np.array(sc["pbits"], dtype=bool).reshape(shape)
    if sc["pmask"] in ("nomask", "all_false"):
        pbits = np.zeros(shape, dtype=bool)          # the producer masks no cell
    pmask = {"FLEX": Mask.FLEX, "NONE": Mask.NONE, "fixed": pbits, "nomask": np.ma.nomask,
             "all_false": pbits}[sc["pmask"]]
    p_fixed = sc["pmask"] in ("fixed", "nomask", "all_false")
    gb = make_grid(sc["b"]) if sc["b"] is not None else None
    mb = MGrid(sc["b"]) if sc["b"] is not None else ma
    # consumer mask: the producer's mask expressed in the consumer's layout (same physical cells), or with one
    # cell flipped
    ca, cb = ma.coords_array(), mb.coords_array()
    loc2bit = {tuple(np.round(ca[idx], 9)): bool(pbits[idx]) for idx in np.ndindex(*shape)}
    cbits = np.zeros(mb.data_shape(), dtype=bool)
    for idx in np.ndindex(*mb.data_shape()):
        cbits[idx] = loc2bit[tuple(np.round(cb[idx], 9))]
    cdiff = cbits.copy()
    flat = cdiff.reshape(-1)
    flat[sc["flip"] % flat.size] = not flat[sc["flip"] % flat.size]
    if sc["cmask"] == "same_object":
        # the very same array object on both ends (e.g. one module-level mask reused for two grids): it only
        # describes the same cells if the consumer's layout maps it onto itself
        if not p_fixed or mb.data_shape() != shape:
            sc = dict(sc, cmask="fixed_equal")
        else:
            cbits_same = pbits
    czero = np.zeros(mb.data_shape(), dtype=bool)
    cmask = {"FLEX": Mask.FLEX, "NONE": Mask.NONE, "fixed_equal": cbits, "fixed_diff": cdiff,
             "same_object": pbits, "nomask": np.ma.nomask, "all_false": czero}[sc["cmask"]]
    # expected outcome from the documented rules
    if sc["cmask"] == "FLEX":
        want = True
    elif sc["cmask"] == "NONE":
        # is a producer with a fixed mask that masks nothing "unmasked"? the rules do not say whether to accept - but
        # if the link is accepted, the consumer that demanded unmasked data must get plain arrays
        want = None if sc["pmask"] in ("nomask", "all_false") else sc["pmask"] == "NONE"
    elif sc["cmask"] == "same_object":
        want = bool(np.array_equal(pbits, cbits))
    elif sc["cmask"] in ("nomask", "all_false"):
        if sc["pmask"] == "NONE":
            return viol      # same question the other way round
        want = p_fixed and not cbits.any()
    else:
        want = p_fixed and sc["cmask"] == "fixed_equal"
    if sc["pmask"] == "fixed":
        # preparing FLAT data (in the grid's own flattening order) under the fixed mask of a structured grid: exactly
        # that mask, every unmasked value at its cell - for every layout
        fld = ma.field([1.0, 10.0, 100.0, 1000.0][: ma.dim + 1])
        for payload in (fld.reshape(-1, order=ma.order).copy(), tools.UNITS.Quantity(fld.reshape(-1, order=ma.order).copy(), "m")):
            try:
                pm = tools.prepare(payload, Info(time=dt(0), grid=ga, units="m", mask=pbits)).magnitude
            except Exception as e:      # noqa: BLE001
                v("mask-prepare", "flat-" + type(e).__name__, f"{desc(sc)}: prepare(flat data) raised {type(e).__name__}: {e}")
                return viol
            if pm.shape != (1,) + shape or not np.ma.isMaskedArray(pm) or not np.array_equal(np.ma.getmaskarray(pm)[0], pbits):
                v("mask-prepare", "flat-mask", f"{desc(sc)}: flat data prepared under a fixed mask does not carry exactly that mask "
                  f"(grid order {ma.order}, axes reversed {ma.rev})")
                return viol
            if not np.allclose(np.ma.getdata(pm)[0][~pbits], fld[~pbits]):
                v("mask-prepare", "flat-values", f"{desc(sc)}: flat data prepared under a fixed mask: values at the wrong cells")
                return viol
    out = Output(name="src", info=Info(time=dt(0), grid=ga, units="m", mask=pmask))
    inp = Input(name="dst", info=Info(time=dt(0), grid=gb, units="m", mask=cmask))
    out >> inp
    inp.ping()
    try:
        inp.exchange_info()
        got = True
    except FinamMetaDataError:
        got = False
    except Exception as e:
        v("mask-accept", type(e).__name__, f"{desc(sc)}: exchange raised {type(e).__name__}: {e}")
        return viol
    if want is None:
        if got:
            field = ma.field([1.0, 10.0, 100.0, 1000.0][: ma.dim + 1])
            try:
                out.push_data(np.ma.array(field.copy(), mask=pmask, shrink=False), dt(0))
                d = inp.pull_data(dt(0)).magnitude
            except Exception:      # noqa: BLE001   (refusing the data is as good as refusing the link)
                return viol
            if np.ma.isMaskedArray(d):
                v("mask-accept", "none-consumer-got-masked", f"{desc(sc)}: the link was accepted and the consumer that demanded "
                  "unmasked data received a masked array")
        return viol
    if got != want:
        v("mask-accept", f"{sc['cmask']}<-{sc['pmask']}:{sc['cgrid']}",
          f"{desc(sc)}: connect {'accepted' if got else 'refused'}, documented rule says {'accept' if want else 'refuse'}")
        return viol
    if got and sc["pmask"] != "NONE":
        # data flows with the mask at the same physical cells
        field = ma.field([1.0, 10.0, 100.0, 1000.0][: ma.dim + 1])
        payload = np.ma.array(field.copy(), mask=pbits, shrink=False) if sc["pmask"] != "NONE" else field.copy()
        try:
            out.push_data(payload, dt(0))
            d = inp.pull_data(dt(0)).magnitude
        except Exception as e:
            v("mask-accept", "flow-" + type(e).__name__, f"{desc(sc)}: accepted link failed to transfer masked data: {type(e).__name__}: {e}")
            return viol
        fb = mb.field([1.0, 10.0, 100.0, 1000.0][: mb.dim + 1])
        gm = np.ma.getmaskarray(d[0])
        if d.shape != (1,) + mb.data_shape() or not np.array_equal(gm, cbits) or \
                not np.allclose(np.ma.getdata(d[0])[~cbits], fb[~cbits]):
            v("mask-accept", "flow-values", f"{desc(sc)}: masked data not delivered at the same physical cells")
    return viol


def desc(sc):
    return f"consumer mask {sc['cmask']} (grid {sc['cgrid']}) <- producer mask {sc['pmask']} on {sc['a']['type']}"


def execute(sc):
    if sc["engine"] == "R":
        viol = run_roundtrip(sc)
        nt = sc["mask_kind"] == "partial" and len(sc["shape"]) >= 2
        cls = "R:" + sc["mask_kind"]
    else:
        viol = run_accept(sc)
        nt = sc["pmask"] in ("fixed", "nomask", "all_false") and (sc["cmask"].startswith("fixed") or sc["cmask"] in ("nomask", "all_false"))
        cls = f"A:{sc['cmask']}<-{sc['pmask']}:{sc['cgrid']}"
    return {"violations": viol, "digest": digest_of(sc), "nontrivial": nt, "probes": {}, "faults": {},
            "sig": cls, "cls": cls, "sim_hours": 0, "outcome": {"class": cls}}


def known_sig(sc, v):
    return None
