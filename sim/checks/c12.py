"""C12 - time integration adapters conserve the integral."""
from fractions import Fraction

from .. import bootstrap  # noqa: F401
from ..gen import gen_adapter, PASS, STEP_POS
from ..link import run_e3
from ..model import close, convert

ID = "C12"
LEVEL = "exploration"
ENGINE = "E3"
QUICK_RUNS = 4000
THOROUGH_RUNS = 2000000
QUICK_WALL = 90
THOROUGH_WALL = 900
CHUNK = 40
OWN = {"link-value", "range-false-refuse", "range-not-refused", "link-exception", "push-raises", "link-units", "link-mask",
       "link-shape"}
RENAME = {"link-value": "integral-value", "link-units": "integral-units"}
RULE = ("one irregular publication series consumed through two instances of the same integration adapter "
        "(AvgOverTime / SumOverTime, linear or step position 0..1, per-time or absolute) with two different "
        "strictly increasing partitions of the same period (finer, coarser, incommensurable, single step), pulls "
        "delayed by a seeded number of further publications; oracles: exact integral of the interpolant (Fractions "
        "for times), totals of the two partitions equal, averages within the range of contributing values, output "
        "units = input units x s reduced; non-trivial = both partitions have >= 2 integrating pulls; distinct = "
        "digest of the event/result log")
REAL = ["Output", "Input", "AvgOverTime", "SumOverTime", "Scale"]
STUB = ["event driver standing in for producer and consumers"]
ASSUMPTIONS = ["request times strictly increasing per consumer (zero-length intervals are refused by design)",
               "float tolerance 1e-9 relative"]
GAPS = [1, 2, 3, 4, 6, 7, 2, 3, 31, 50]    # hours; some gaps are longer than a day
FR = [Fraction(1, 2), Fraction(1, 4), Fraction(3, 4), Fraction(1, 3)]


def partition(tape, pubs, t_end, coarse=False):
    """strictly increasing request times from pubs[0] to t_end"""
    mode = tape.weighted([("random", 5), ("single", 1), ("fine", 2), ("on_pubs", 2), ("near_pubs", 1)])
    if coarse and mode == "fine":
        mode = "random"         # (long series: keep the number of requests in the hundreds)
    t0 = pubs[0]
    ts = [t0]
    if mode == "near_pubs":
        # requests one second before / after publications (relative position within 1e-5 of an interval end where
        # the gap is longer than a day)
        eps = Fraction(1, 3600)
        for p in pubs[1:]:
            for q in (p - eps, p, p + eps):
                if ts[-1] < q < t_end and tape.chance(1, 2):
                    ts.append(q)
        return ts + [t_end]
    if mode == "single":
        return ts + [t_end]
    if mode == "on_pubs":
        for p in pubs[1:]:
            if p < t_end and tape.chance(2, 3):
                ts.append(p)
        return ts + [t_end]
    t = Fraction(t0)
    while True:
        if mode == "fine":
            t = t + tape.choice([Fraction(1, 2), 1, Fraction(1, 4)])
        else:
            t = t + tape.choice([1, 2, 3, 5, Fraction(1, 2), Fraction(3, 2), Fraction(7, 3), 9])
        if t >= t_end:
            break
        ts.append(t)
    return ts + [t_end]


def generate(tape, tier="quick"):
    n = tape.rng_int(3, 14) if not tape.chance(1, 120) else tape.rng_int(45, 90)      # now and then a long series
    pubs = [0]
    for _ in range(n):
        pubs.append(pubs[-1] + tape.choice(GAPS))
    vals = [float(tape.choice([0, 1, 2, 5, 10, -3, 7.5, 100]) + i * tape.choice([0, 1, 0.5])) for i in range(len(pubs))]
    kind = tape.choice(["sum", "avg"])
    a = {"kind": kind, "p": tape.choice([None] + STEP_POS)}
    if kind == "sum":
        a["per_time"] = not tape.chance(1, 3)
        a["init"] = tape.choice([0, 1, 5])
    t_end = pubs[-1] if tape.chance(2, 3) else Fraction(pubs[-2] + pubs[-1], 2)
    units = tape.choice(["", "m/s", "mm/d", "m"])
    cons = []
    parts = []
    for _ in range(2):
        chain = [dict(a)]
        if tape.chance(1, 5):
            chain.insert(0, {"kind": "scale", "f": 2})
        ts = partition(tape, pubs, t_end, coarse=n >= 45)
        parts.append(ts)
        cons.append({"chain": chain, "units": None})
    # same pre-scaling on both so that totals are comparable
    cons[1]["chain"] = [dict(x) for x in cons[0]["chain"]]
    # the consumer may ask for other (convertible) units than the adapter delivers
    ou = units
    if kind == "sum" and a.get("per_time", True):
        ou = {"": "s", "m/s": "m", "mm/d": "mm", "m": "m s"}[units]
    same_dim = {"m": ["m", "km", "mm"], "mm": ["mm", "m", "km"], "m/s": ["m/s", "mm/d"], "mm/d": ["mm/d", "m/s"]}.get(ou)
    if same_dim and tape.chance(1, 3):
        cu = tape.choice(same_dim)
        cons[0]["units"] = cons[1]["units"] = cu
    # interleave: every pull after the first publication >= its time, delayed by 0..3 more publications
    pulls = []
    # in a long series the producer may be far ahead of both consumers: dozens of publications wait in the adapters
    lag = tape.rng_int(33, 44) if n >= 45 and tape.chance(2, 3) else 0
    for ci, ts in enumerate(parts):
        for t in ts:
            need = next(i for i, p in enumerate(pubs) if p >= t)
            pulls.append((min(len(pubs) - 1, need + lag + tape.weighted([(0, 5), (1, 2), (3, 1)])), Fraction(t), ci))
    # keep per-consumer order: a later request must not be emitted before an earlier one
    events = []
    emitted = [0, 0]
    per = [[p for p in pulls if p[2] == ci] for ci in range(2)]
    for ci in range(2):
        mx = 0
        fixed = []
        for (k, t, c) in per[ci]:
            mx = max(mx, k)
            fixed.append((mx, t, c))
        per[ci] = fixed
    allp = sorted(per[0] + per[1], key=lambda x: (x[0], x[2], x[1]))
    pi = 0
    for i, p in enumerate(pubs):
        events.append(["PUSH", p, vals[i]])
        while pi < len(allp) and allp[pi][0] <= i:
            _, t, c = allp[pi]
            events.append(["PULL", c, int(t) if t.denominator == 1 else t])
            pi += 1
    src = {"units": units}
    if tape.chance(1, 4):
        from ..grids import gen_structured
        src["grid"] = gen_structured(tape, max_dim=2, max_len=3)
        if tape.chance(1, 3):
            src["masked"] = tape.choice(["partial", "nomask"])
    if tape.chance(1, 4):
        # storage pressure: the adapters' buffers (and the source's history) partly or completely in spill files
        for c in cons:
            c["mem_limit"] = tape.choice([0, 0, 10, 60, 200])
        if tape.chance(1, 2):
            src["mem_limit"] = tape.choice([0, 10, 60])
    sc = {"engine": "E3", "src": src, "consumers": cons, "events": events, "kind": kind, "api": tape.draw(16)}
    if tape.chance(1, 3):
        src["time_axis"] = True
    src_dim = {"m": ["km", "mm"], "m/s": ["mm/d"], "mm/d": ["m/s"]}.get(units)
    if src_dim and tape.chance(1, 4):
        # a bystander on the same output: a third consumer behind a pass-through (delay) adapter that asks for other
        # units and reads now and then - what it is handed must not touch what the integrating adapters buffered
        d = tape.choice([0, 1, 2])
        cons.append({"chain": [{"kind": "delay_fixed", "d": d}], "units": tape.choice(src_dim), "bystander": True})
        ev2, last = [], None
        for e in events:
            ev2.append(e)
            if e[0] == "PUSH" and tape.chance(1, 2):
                ev2.append(["PULL", 2, e[1]])
        sc["events"] = ev2
    return sc


def execute(sc):
    r = run_e3(sc)
    viol = [dict(v, oracle=RENAME.get(v["oracle"], v["oracle"])) for v in r["violations"] if v["oracle"] in OWN]
    log = r["log"]
    tot = [0.0, 0.0]
    cnt = [0, 0]
    first = [True, True]
    done = not r["violations"]
    a = sc["consumers"][0]["chain"][-1]
    pubs = [(e[1], e[2]) for e in sc["events"] if e[0] == "PUSH"]
    prev = [None, None]
    scale = 2.0 if sc["consumers"][0]["chain"][0]["kind"] == "scale" else 1.0
    rig = r["rig"]
    base0 = 0.0 if rig.base is None else float(rig.base.reshape(-1)[rig.log_idx])    # logged value = first (unmasked) grid element
    # (a grid whose every cell is masked delivers no value at all: nothing to compare then)
    allmasked = rig.maskarr is not None and bool(rig.maskarr.all())
    for e in log:
        if e[0] != "PULL" or e[3] != "val":
            continue
        ci, t, val = e[1], Fraction(e[2]), e[4]
        if ci >= 2:
            continue            # the bystander is judged by the link oracles only
        if first[ci]:
            first[ci] = False
            prev[ci] = t
            continue
        if sc["kind"] == "sum":
            tot[ci] += val
        else:
            tot[ci] += val * float(t - prev[ci])
            # range of contributing publications (those whose interval with a neighbour overlaps (prev, t))
            contrib = []
            for i, (tp, vp) in enumerate(pubs):
                lo = pubs[i - 1][0] if i > 0 else tp
                hi = pubs[i + 1][0] if i + 1 < len(pubs) else tp
                if Fraction(hi) > prev[ci] and Fraction(lo) < t:
                    contrib.append(convert((vp + base0) * scale, sc["src"]["units"], sc["consumers"][0].get("units")
                                           or sc["src"]["units"]))
            if contrib and done and not allmasked and not (min(contrib) - 1e-9 * (1 + abs(min(contrib))) <= val <= max(contrib) + 1e-9 * (1 + abs(max(contrib)))):
                viol.append({"oracle": "avg-range", "kind": "range", "consumer": ci,
                             "msg": f"average {val} over ({prev[ci]}, {t}] outside the range [{min(contrib)}, {max(contrib)}] of contributing values"})
        cnt[ci] += 1
        prev[ci] = t
    complete = done and all(c > 0 for c in cnt) and prev[0] == prev[1]
    # the totals are sums of products of publication values and durations and may cancel: the absolute tolerance is
    # relative to the largest term that can enter them, not to the totals themselves
    cu_ = sc["consumers"][0].get("units") or sc["src"]["units"]
    vmax = max([abs(convert((vp + base0) * scale, sc["src"]["units"], cu_)) for _, vp in pubs] + [1.0])
    span = float(pubs[-1][0] - pubs[0][0]) if len(pubs) > 1 else 1.0
    if sc["kind"] == "sum" and a.get("per_time", True):
        span *= 3600.0
    if complete and not allmasked and not close(tot[0], tot[1], rel=1e-9, ab=1e-9 * vmax * max(span, 1.0) * 4.0 + 1e-9):
        viol.append({"oracle": "partition-sum", "kind": sc["kind"], "consumer": 0,
                     "msg": f"total delivered over the same period differs between partitions: {tot[0]} vs {tot[1]}"})
    return {"violations": viol, "digest": r["digest"], "probes": r["probes"], "faults": {},
            "nontrivial": complete and min(cnt) >= 2, "sig": r["digest"],
            "sim_hours": int(pubs[-1][0]) if pubs else 0, "cls": sc["kind"],
            "outcome": {"totals": tot, "integrating_pulls": cnt, "log_tail": log[-4:]}}
