"""C15 - canonical form and conversion between compatible grids preserve located values."""
from .. import bootstrap  # noqa: F401
from ..core import digest_of
from ..grids import gen_structured, relayout, make_grid, MGrid
from ..world import dt, mag

import numpy as np
import finam as fm
from finam import Info, Input, Output, Mask
from finam.adapters.base import Scale

ID = "C15"
LEVEL = "exploration"
ENGINE = "E3"
QUICK_RUNS = 6000
THOROUGH_RUNS = 600000
QUICK_WALL = 100
THOROUGH_WALL = 900
CHUNK = 100
RULE = ("seeded pairs of structured grids: two layouts (order, axes_reversed, per-axis direction, class "
        "uniform/rectilinear/ESRI) of one geometry, or a perturbed geometry / other data location; oracles: "
        "from_canonical(to_canonical(x)) = x, canonical data indexed x,y,z along increasing coordinates (M-grid), "
        "compatible_with <=> same set of data locations (M-grid), and on a REAL link output(grid A) >> [Scale] >> "
        "input(grid B) over several publications the delivered array (with its time axis, masked or not) carries "
        "every value at the same physical location (located-value oracle with an affine field); equal layouts pass "
        "through unchanged. non-trivial = the two layouts differ and the grid has >= 2 data points in >= 1 axis; "
        "distinct = digest of the two specs")
REAL = ["StructuredGrid.to_canonical/from_canonical/get_transform_to/compatible_with", "Input", "Output", "Info", "Scale"]
STUB = ["event driver standing in for producer and consumer"]
ASSUMPTIONS = ["M-grid (sim/grids.py) is the independent index->coordinate arithmetic",
               "grids with only single-point axes are skipped for the cell-vs-point compatibility clause"]
LEVEL_NOTE = ("mostly configuration/input space; the simulator contributes the seeded swarm and execution on a real "
              "link over several publications; trusted base: numpy, sim/grids.py")


def generate(tape, tier="quick"):
    a = gen_structured(tape, max_dim=3, max_len=4, big_coords=True)
    rel = tape.weighted([("relayout", 7), ("same", 2), ("other_loc", 1), ("perturbed", 2), ("swapped", 1), ("other_crs", 1)])
    if tape.chance(1, 5):
        a["crs"] = "EPSG:32632"       # both grids name the same coordinate reference system (unless other_crs)
    if rel == "same":
        b = dict(a)
    else:
        b = relayout(tape, a)
        if rel == "other_loc":
            b["loc"] = "points" if b["loc"] == "cells" else "cells"
        elif rel == "other_crs":
            # the same numbers in another - or in no - coordinate reference system are other locations
            b["crs"] = {None: "EPSG:32632", "EPSG:32632": tape.choice([None, "EPSG:25832"])}[a.get("crs")]
        elif rel == "swapped":
            # the same number of data locations, the extents of two axes exchanged (3 x 4 cells against 4 x 3)
            if len(b["dims"]) >= 2 and b["dims"][0] != b["dims"][-1]:
                for key in ("dims", "spacing", "origin", "axes"):
                    if key in b:
                        b[key] = list(b[key])
                        b[key][0], b[key][-1] = b[key][-1], b[key][0]
            else:
                rel = "relayout"
        elif rel == "perturbed":
            k = tape.draw(len(b["dims"]))
            if b["type"] == "uniform":
                if tape.chance(1, 2):
                    b["origin"] = list(b["origin"]); b["origin"][k] += 0.5
                else:
                    b["dims"] = list(b["dims"]); b["dims"][k] += 1
            else:
                b["axes"] = [list(x) for x in b["axes"]]
                b["axes"][k] = [x + 0.25 for x in b["axes"][k]]
    if tape.chance(1, 300):
        # one long axis (more than two thousand nodes): the other grid is the same in another layout, or differs from
        # it in one to three neighbouring nodes somewhere along the axis
        n = tape.rng_int(2100, 3000)
        ax = [float(i) for i in range(n)]
        a = {"type": "rectilinear", "dims": [n] + ([3] if tape.chance(1, 2) else []), "order": tape.choice(["F", "C"]),
             "rev": tape.chance(1, 2), "inc": [True, not tape.chance(1, 3)], "loc": tape.choice(["cells", "points"]),
             "axes": [ax] + [[0.0, 1.0, 3.0]]}
        a["inc"], a["axes"] = a["inc"][: len(a["dims"])], a["axes"][: len(a["dims"])]
        b = relayout(tape, a)
        rel = tape.choice(["relayout", "perturbed"])
        if rel == "perturbed":
            k0, w = tape.rng_int(5, n - 10), tape.rng_int(1, 3)
            b["axes"] = [list(x) for x in b["axes"]]
            b["axes"][0] = [x + (0.4 if k0 <= i < k0 + w else 0.0) for i, x in enumerate(b["axes"][0])]
    coef = [tape.choice([0.0, 1.0, 5.0])] + [tape.choice([1.0, 10.0, 100.0, -2.0]) for _ in range(3)]
    sc = {"engine": "G2", "a": a, "b": b, "rel": rel, "coef": coef, "masked": tape.chance(1, 3),
          "scale": tape.chance(1, 4), "npub": tape.rng_int(1, 3), "static": tape.chance(1, 4), "units": tape.choice([("m", "m"), ("m", "km"), ("", "")])}
    if sc["masked"]:
        # what the mask of each publication looks like: cells chosen by a rule on the coordinates, a masked array that
        # masks nothing and therefore has no mask array (np.ma.masked_where on a step without hits), an all-False array
        sc["mask_modes"] = [tape.weighted([("rule", 3), ("nomask", 2), ("allfalse", 1)]) for _ in range(3)]
        if False:
            pass
    if not sc["masked"] and tape.chance(1, 4):
        # the producer hands its data over as a flat vector in the grid's own flattening order (data_points order)
        sc["flat"] = True
    if not sc["static"] and tape.chance(1, 3):
        # the consumer lags: everything is published first, then every publication is pulled (several pulls
        # between two notifications, each served from another retained publication)
        sc["late_pulls"] = True
    if tape.chance(1, 4):
        # a copy of the producer's grid object was switched to the other data location and read first (the usual way
        # to get the point grid that belongs to a cell grid): the original stays what it was
        sc["copy_twin"] = True
    if sc["masked"]:
        if tape.chance(1, 3):
            # the same physical mask declared in the metadata of BOTH ends, each in its own layout
            sc["explicit_mask"] = True
            sc["mask_modes"] = ["rule"] * 3
    return sc


def execute(sc):
    viol = []

    def v(oracle, kind, msg):
        viol.append({"oracle": oracle, "kind": kind, "msg": msg})

    ga, gb = make_grid(sc["a"]), make_grid(sc["b"])
    if sc.get("copy_twin") and sc["a"]["type"] in ("uniform", "rectilinear"):
        try:
            tw = ga.copy()
            tw.data_location = fm.Location.POINTS if ga.data_location == fm.Location.CELLS else fm.Location.CELLS
            _ = (tw.data_shape, tw.data_size, len(tw.data_points))
        except Exception as e:      # noqa: BLE001
            v("canon-roundtrip", "copy", f"copying grid {sc['a']} and switching the copy's data location raised {type(e).__name__}: {e}")
    ma, mb = MGrid(sc["a"]), MGrid(sc["b"])
    coef = sc["coef"][: ma.dim + 1]
    fa = ma.field(coef)
    # ---- round trip and canonical order
    for g, m, f in ((ga, ma, fa),):
        try:
            can = g.to_canonical(f)
            back = g.from_canonical(can)
        except Exception as e:      # noqa: BLE001
            from ..core import raised_in_finam
            if not raised_in_finam(e):
                raise
            v("canon-roundtrip", type(e).__name__, f"to_canonical / from_canonical refused data in the grid's own data "
              f"shape {np.shape(f)} for grid {sc['a']}: {type(e).__name__}: {e}")
            return {"violations": viol, "digest": digest_of(sc), "nontrivial": True, "probes": {}, "faults": {},
                    "sig": "exc", "cls": "exception", "sim_hours": 0, "outcome": {}}
        if np.shape(back) != np.shape(f) or not np.array_equal(back, f):
            v("canon-roundtrip", "identity", f"from_canonical(to_canonical(x)) != x for grid {sc['a']}")
        la = m.loc_axes()
        exp = np.full(tuple(len(x) for x in la), float(coef[0]))
        for k in range(m.dim):
            shp = [1] * m.dim
            shp[k] = len(la[k])
            exp = exp + coef[k + 1] * np.reshape(la[k], shp)
        if np.shape(can) != exp.shape or not np.allclose(can, exp, atol=1e-9):
            v("canon-order", "xyz", f"canonical data is not indexed x,y,z along increasing coordinates for grid {sc['a']}")
    # ---- compatibility relation
    same_set = ma.location_set() == mb.location_set() and ma.dim == mb.dim and sc["a"].get("crs") == sc["b"].get("crs")
    degenerate = all(len(a) == 1 for a in ma.axes)
    try:
        comp = bool(ga.compatible_with(gb))
        comp_r = bool(gb.compatible_with(ga))
        _ = (ga == gb), (gb == ga)
    except Exception as e:      # noqa: BLE001
        v("compat-relation", type(e).__name__, f"compatible_with / == raised {type(e).__name__}: {str(e)[:200]} for "
          f"{sc['a']} vs {sc['b']}")
        return result(sc, viol, False, ma, mb)
    if not degenerate:
        # cells are more than their centres: two DIFFERENT sets of cells whose centres happen to coincide (a one-node axis
        # at x = 0.1 crossed with nodes 0.0 / 0.2, against the same exchanged) are not "the same data locations"; the
        # centre sets cannot decide that case, so it is left out
        ambiguous = same_set and not (comp and comp_r) and ma.loc == "cells" and mb.loc == "cells" and \
            MGrid(sc["a"], loc="points").location_set() != MGrid(sc["b"], loc="points").location_set()
        if ambiguous:
            return result(sc, viol, False, ma, mb)
        if comp != same_set or comp_r != same_set:
            v("compat-relation", str(same_set), f"compatible_with gives {comp}/{comp_r} but the data location sets are "
              f"{'equal' if same_set else 'different'}: {sc['a']} vs {sc['b']}")
    if viol or not same_set or degenerate and sc["rel"] == "other_loc":
        return result(sc, viol, False, ma, mb)
    # ---- the link
    us, uc = sc["units"]
    static = bool(sc.get("static"))
    mkw_a, mkw_b = {}, {}
    if sc.get("explicit_mask"):
        mkw_a = {"mask": (np.round(fa * 7.3) % 3 == 0)}
        mkw_b = {"mask": (np.round(mb.field(coef) * 7.3) % 3 == 0)}
    out = Output(name="src", info=Info(time=None if static else dt(0), grid=ga, units=us, **mkw_a), static=static)
    inp = Input(name="dst", info=Info(time=None if static else dt(0), grid=gb, units=uc, **mkw_b), static=static)
    f = 1.0
    if sc["scale"]:
        out >> Scale(2.0) >> inp
        f = 2.0
    else:
        out >> inp
    inp.ping()
    try:
        inp.exchange_info()
    except Exception as e:
        v("transform-located", "connect", f"metadata exchange between compatible grids failed: {type(e).__name__}: {e}")
        return result(sc, viol, True, ma, mb)
    conv = {"m": 1.0, "km": 0.001, "": 1.0}[uc] / {"m": 1.0, "km": 0.001, "": 1.0}[us]
    fb = mb.field(coef)
    n_steps = sc["npub"] if not static else 3
    if sc.get("late_pulls"):
        seq = [("push", k) for k in range(n_steps)] + [("pull", k) for k in range(n_steps)]
    else:
        seq = [x for k in range(n_steps) for x in (("push", k), ("pull", k))]
    for (what, k) in seq:
        # static slots: one publication, pulled three times (the cached value must stay the converted one)
        kk = 0 if static else k
        data = fa + 1000.0 * kk
        mask_a = None
        mode = (sc.get("mask_modes") or ["rule"] * 3)[kk] if sc["masked"] else None
        if mode == "rule":
            mask_a = (np.round(fa * 7.3) % 3 == 0)
            payload = np.ma.array(data.copy(), mask=mask_a)
        elif mode == "nomask":
            payload = np.ma.masked_where(data < -1e30, data.copy())
        elif mode == "allfalse":
            payload = np.ma.array(data.copy(), mask=np.zeros(data.shape, bool))
        else:
            payload = data.copy()
            if sc.get("flat"):
                payload = payload.reshape(-1, order=ma.order)
        try:
            if what == "push":
                if not static or k == 0:
                    out.push_data(payload, None if static else dt(k))
                continue
            got = inp.pull_data(dt(k))
        except Exception as e:
            v("transform-located", type(e).__name__,
              f"publication {k}: link between layouts {('equal' if sc['rel'] == 'same' else 'different')} failed: {type(e).__name__}: {e}")
            break
        arr = got.magnitude
        want = (fb + 1000.0 * kk) * f * conv
        if arr.shape != (1,) + mb.data_shape():
            v("transform-located", "shape", f"publication {k}: delivered shape {arr.shape}, expected {(1,) + mb.data_shape()}")
            break
        if sc["masked"]:
            # the mask travels with the locations: masked where the field-derived rule says so at B's coordinates
            want_mask = (np.round(fb * 7.3) % 3 == 0) if mode == "rule" else np.zeros(fb.shape, bool)
            gm = np.ma.getmaskarray(arr[0])
            if not np.array_equal(gm, want_mask):
                v("transform-located", "mask", f"publication {k}: mask not carried to the same physical locations")
                break
            ok = np.allclose(np.ma.getdata(arr[0])[~want_mask], want[~want_mask], rtol=1e-9, atol=1e-9)
        else:
            ok = np.allclose(np.asarray(arr[0]), want, rtol=1e-9, atol=1e-9)
        if not ok:
            v("transform-located", "value", f"publication {k}: values are not at the same physical locations "
              f"(src {sc['a']}, dst {sc['b']})")
            break
    return result(sc, viol, True, ma, mb)


def result(sc, viol, linked, ma, mb):
    differ = (ma.rev, tuple(ma.inc)) != (mb.rev, tuple(mb.inc))
    big = max(ma.data_shape()) >= 2
    return {"violations": viol, "digest": digest_of([sc["a"], sc["b"], sc["masked"], sc["scale"]]),
            "nontrivial": linked and differ and big, "probes": {"link_exercised": int(linked), "layouts_differ": int(differ)},
            "faults": {}, "sig": digest_of([ma.rev, ma.inc, mb.rev, mb.inc, ma.order, mb.order]), "cls": sc["rel"],
            "sim_hours": sc["npub"], "outcome": {"rel": sc["rel"], "shape_a": ma.data_shape(), "shape_b": mb.data_shape()}}
