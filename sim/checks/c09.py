"""C09 - output history is never dropped while needed and never grows unboundedly."""
from .. import bootstrap  # noqa: F401
from ..gen import gen_adapter, PASS
from ..link import run_e3, gen_events

ID = "C09"
LEVEL = "exploration"
ENGINE = "E3"
QUICK_RUNS = 22000
THOROUGH_RUNS = 3000000
QUICK_WALL = 100
THOROUGH_WALL = 900
CHUNK = 400
OWN = {"range-false-refuse", "history-unbounded", "link-value", "link-exception", "push-raises", "link-mask", "link-shape"}
RULE = ("seeded interleavings of publications (increasing times, irregular gaps) and pulls of 1-4 consumers "
        "(non-decreasing request times, strongly diverging speeds, duplicates, midpoints), consumers direct or "
        "behind pass-through, push-based and delay adapters; every pull is compared with an unlimited-history "
        "reference and the retained history length with the bound after every event; non-trivial = at least "
        "two consumers or one eviction-relevant pull sequence with >= 5 pulls and the bound was evaluated; "
        "distinct = digest of the event/result log")
REAL = ["Output", "Input", "Adapter chain (Scale, Callback, NextTime, PreviousTime, LinearTime, StepTime, DelayFixed)"]
STUB = ["event driver standing in for producer and consumers"]
ASSUMPTIONS = [
    "every consumer's request times are non-decreasing (a refused out-of-range request does not count)",
    "a push-based adapter counts as a consumer that pulled at the newest notification",
    "thorough tier adds long histories (up to 2000 events)",
    "a quarter of the runs under storage pressure (memory limit 0..200 bytes on the output and on push-based adapters: "
    "retained entries live in spill files), gridded payloads plain or masked (partial mask / masked array without mask)",
]


def generate(tape, tier="quick"):
    n_cons = tape.weighted([(1, 3), (2, 5), (3, 3), (4, 2)])
    cons = []
    for _ in range(n_cons):
        kind = tape.weighted([("direct", 5), ("pass", 3), ("buffer", 3), ("delay", 2)])
        chain = []
        if kind == "pass":
            chain = [gen_adapter(tape, PASS) for _ in range(tape.rng_int(1, 2))]
        elif kind == "buffer":
            chain = [gen_adapter(tape, ["next", "prev", "linear", "step"])]
            if tape.chance(1, 3):
                chain.append(gen_adapter(tape, PASS))
            if tape.chance(1, 4):
                chain.insert(0, gen_adapter(tape, PASS))
        elif kind == "delay":
            chain = [{"kind": "delay_fixed", "d": tape.choice([1, 2, 3, 5])}]
            if tape.chance(1, 3):
                chain.append(gen_adapter(tape, PASS))
            if tape.chance(1, 3):
                # a push-based end point behind the delay: notified with the publication time, it asks the source for
                # an older time during that very notification
                chain.append(gen_adapter(tape, ["next", "prev", "linear", "step"]))
        spec = {"chain": chain}
        # share a prefix of stateless adapters with an earlier consumer (one adapter instance, two targets)
        bases = [k for k, b in enumerate(cons) if "shared_with" not in b and b["chain"] and
                 b["chain"][0]["kind"] in ("scale", "callback", "delay_fixed")]
        if bases and tape.chance(1, 3):
            b = tape.choice(bases)
            pre = 0
            for a in cons[b]["chain"]:
                if a["kind"] in ("scale", "callback", "delay_fixed"):
                    pre += 1
                else:
                    break
            k = 1 + tape.draw(pre)
            tail = [a for a in chain if a["kind"] in ("scale", "callback")][:1]
            spec = {"chain": [dict(a) for a in cons[b]["chain"][:k]] + tail, "shared_with": b, "shared_len": k}
        cons.append(spec)
    n_events = tape.weighted([(12, 16), (25, 16), (45, 8), (60, 4), (400, 1)])        # now and then a long history
    if tier == "thorough" and tape.chance(1, 400):
        n_events = tape.choice([500, 1000, 2000])
    # consumers without a delay adapter on their chain: a request beyond the newest publication is refused and
    # leaves everything as it was, so they continue from their last answered request
    nodelay = [not any(a["kind"].startswith("delay") for a in c["chain"]) for c in cons]
    events = gen_events(tape, n_cons, n_events, refused_future_keeps_last=nodelay, future_chance=(1, 3))
    src = {"units": ""}
    if tape.chance(1, 5):
        from ..grids import gen_structured
        src["grid"] = gen_structured(tape, max_dim=2, max_len=3)
        if tape.chance(1, 2):
            src["masked"] = tape.choice(["partial", "nomask"])
    if tape.chance(1, 4):
        # storage pressure: retained history (and adapter buffers) partly or completely on disk
        src["mem_limit"] = tape.choice([0, 0, 10, 60, 200])
        for c in cons:
            if "shared_with" not in c and tape.chance(1, 2):
                c["mem_limit"] = tape.choice([0, 10, 60])
    return {"engine": "E3", "src": src, "consumers": cons, "events": events,
            "exchange_order": tape.shuffle(list(range(n_cons))), "api": tape.draw(16)}


def execute(sc):
    r = run_e3(sc)
    viol = [v for v in r["violations"] if v["oracle"] in OWN]
    for v in viol:
        if v["oracle"] == "range-false-refuse":
            v["oracle"] = "history-dropped"
    p = r["probes"]
    return {"violations": viol, "digest": r["digest"], "probes": p,
            "faults": {"F2_duplicate_pull": sum(1 for i, e in enumerate(sc["events"]) if e[0] == "PULL" and any(
                x[0] == "PULL" and x[1] == e[1] and x[2] == e[2] for x in sc["events"][:i])),
                "F3_diverging_consumers": 1 if len(sc["consumers"]) > 1 else 0},
            "nontrivial": p.get("bound_checked", 0) > 0 and r["n_pulls"] >= 5,
            "sig": r["digest"], "sim_hours": int(max([e[1] for e in sc["events"] if e[0] == "PUSH"] or [0])),
            "cls": "ok",
            "outcome": {"pulls": r["n_pulls"], "pushes": r["n_push"], "log_tail": r["log"][-6:]}}
