"""C11 - time interpolation adapters equal their mathematical definition."""
from .. import bootstrap  # noqa: F401
from ..gen import gen_adapter, PASS, STEP_POS
from ..link import run_e3, gen_events

ID = "C11"
LEVEL = "exploration"
ENGINE = "E3"
QUICK_RUNS = 20000
THOROUGH_RUNS = 3000000
QUICK_WALL = 100
THOROUGH_WALL = 900
CHUNK = 400
RENAME = {"link-value": "interp-value"}
OWN = {"link-value", "range-false-refuse", "range-not-refused", "link-exception", "push-raises", "link-units", "link-mask",
       "link-shape"}
RULE = ("irregular strictly increasing publication series with arbitrary values; non-decreasing request sequences "
        "on, between (incl. exact midpoints and quarter points) and across several publications, repeated requests, "
        "requests before the first and beyond the newest publication; adapters Next/Previous/Linear/Step (step "
        "positions 0, 1/4, 1/2, 3/4, 1) alone, behind/before pass-through adapters and two in series; the reference "
        "evaluates the definition on the FULL history; non-trivial = >= 4 served pulls of which one lies strictly "
        "between publications; distinct = digest of the event/result log")
REAL = ["Output", "Input", "NextTime", "PreviousTime", "LinearTime", "StepTime", "Scale", "Callback"]
STUB = ["event driver standing in for producer and consumer"]
ASSUMPTIONS = ["request times are non-decreasing", "scalar and gridded payloads, the latter plain or masked (partial mask / "
               "masked array without mask); a quarter of the runs under storage pressure (adapter buffers in spill files)",
               "float tolerance 1e-9 relative"]


def generate(tape, tier="quick"):
    chain = []
    if tape.chance(1, 5):
        chain.append(gen_adapter(tape, PASS))
    chain.append(gen_adapter(tape, ["linear", "step", "next", "prev"]))
    if tape.chance(1, 6):
        chain.append(gen_adapter(tape, ["linear", "step", "next", "prev"]))
    if tape.chance(1, 5):
        chain.append(gen_adapter(tape, PASS))
    n_events = tape.weighted([(12, 16), (25, 16), (45, 8), (60, 4), (400, 1)])        # now and then a long history
    # requests beyond the newest publication are refused and must leave the adapter as it was: the consumer then
    # continues from its last answered request (which may lie before the refused one)
    burst = (tape.draw(6), tape.rng_int(90, 160)) if tape.chance(1, 150) else None
    from fractions import Fraction
    step_pos = [Fraction(a["p"]) for a in chain if a["kind"] == "step"]
    events = gen_events(tape, 1, n_events, refused_future_keeps_last=True, future_chance=(1, 2), burst=burst,
                        step_pos=step_pos)
    src = {"units": tape.choice(["", "m", "km"])}
    if tape.chance(1, 4):
        from ..grids import gen_structured
        src["grid"] = gen_structured(tape, max_dim=2, max_len=3)
        if tape.chance(1, 3):
            src["masked"] = tape.choice(["partial", "nomask"])
    mem = None
    if tape.chance(1, 4):
        # storage pressure: the adapters' buffers (and the source's history) partly or completely in spill files -
        # discarding and re-reading entries must not change any result
        mem = tape.choice([0, 0, 10, 60, 200])
        if tape.chance(1, 2):
            src["mem_limit"] = tape.choice([0, 10, 60])
    cu = tape.choice([None, None, "m", "km", "mm"]) if src["units"] in ("m", "km") else None
    if "grid" not in src and tape.chance(1, 6):
        # temperatures: units with an offset (interpolating them must add differences, never two absolute values);
        # scaling or shifting adapters make no sense on such data
        src["units"] = "degC"
        cu = tape.choice([None, "K", "degC"])
        chain[:] = [a for a in chain if a["kind"] in ("linear", "step", "next", "prev")]
    return {"engine": "E3", "src": src,
            "consumers": [dict({"chain": chain, "units": cu}, **({"mem_limit": mem} if mem is not None else {}))], "events": events, "api": tape.draw(16)}


def execute(sc):
    r = run_e3(sc)
    viol = [dict(v, oracle=RENAME.get(v["oracle"], v["oracle"])) for v in r["violations"] if v["oracle"] in OWN]
    served = [e for e in r["log"] if e[0] == "PULL" and e[3] == "val"]
    pubs = {e[1] for e in r["log"] if e[0] == "PUSH"}
    between = any(e[2] not in pubs for e in served)
    return {"violations": viol, "digest": r["digest"], "probes": r["probes"], "faults": {},
            "nontrivial": len(served) >= 4 and between, "sig": r["digest"],
            "sim_hours": int(max([e[1] for e in sc["events"] if e[0] == "PUSH"] or [0])), "cls": "ok",
            "outcome": {"pulls": r["n_pulls"], "pushes": r["n_push"], "log_tail": r["log"][-6:]}}
