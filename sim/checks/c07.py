"""C07 - after connect both ends of every link agree on metadata; conflicts are rejected."""
from .. import bootstrap  # noqa: F401
from ..core import digest_of
from ..grids import gen_structured, relayout, make_grid, MGrid
from ..world import dt, tick

from datetime import timedelta

import numpy as np
import finam as fm
from finam import Info, Input, Output, Mask, NoGrid
from finam.adapters.base import Scale, GridToValue, ValueToGrid
from finam.adapters.time_integration import SumOverTime
from finam.errors import FinamMetaDataError, FinamNoDataError

ID = "C07"
LEVEL = "exploration"
ENGINE = "E2"
QUICK_RUNS = 12000
THOROUGH_RUNS = 1200000
QUICK_WALL = 100
THOROUGH_WALL = 900
CHUNK = 200
RULE = ("one producer output and 1-3 consumers on a real link (fan-out at the output), per end a seeded combination of "
        "set/unset time, grid (unset | NoGrid | structured grid in a random layout | re-layout of the other end's grid "
        "| other geometry), units (unset | equal | convertible | other dimension), mask (FLEX | NONE | explicit) and an "
        "extra metadata key, optionally behind a metadata-rewriting adapter (GridToValue, ValueToGrid, per-time "
        "SumOverTime, Scale); the exchange runs in a seeded order with the producer's info arriving early or late "
        "(retries). Oracle from the property text: incompatible ends => metadata error; otherwise success with no "
        "unset field, same data locations, convertible units, mask rule satisfied, unset fields filled from the other "
        "side (through adapters: the rewritten value). non-trivial = >= 1 field unset on one side and set on the "
        "other, or a conflict; distinct = digest of the scenario")
REAL = ["Info.accepts", "Output.get_info/push_info", "Input.exchange_info", "Adapter.get_info/exchange_info",
        "GridToValue", "ValueToGrid", "SumOverTime._get_info", "masks_compatible", "Grid.compatible_with"]
STUB = ["exchange driver standing in for the components' connect calls"]
ASSUMPTIONS = ["combinations the property text does not determine (a field unset on both sides; a NONE consumer on a "
               "producer declaring numpy's nomask) are only checked for 'success or metadata error, nothing else'",
               "unit dimensions from the table below, grid location sets from M-grid"]
DIM = {"m": "L", "km": "L", "mm": "L", "s": "T", "m/s": "L/T", "": "1", "m s": "LT", "km s": "LT"}


def generate(tape, tier="quick"):
    if tape.chance(1, 8):
        # components that derive the metadata of some slots from other slots by info transfer rules (whole-info
        # rules followed by single-field overrides among them) exist in the connect simulator: after a successful
        # connect both ends of each of its links must agree as well (oracles meta-unset-field / meta-units there)
        from .c06 import generate as gen_connect
        return gen_connect(tape, tier)
    g = gen_structured(tape, max_dim=2, max_len=4)
    pgrid = tape.weighted([("G", 5), ("unset", 2), ("nogrid", 2)])
    prod = {"time": not tape.chance(1, 4), "grid": pgrid,
            "units": tape.weighted([("m", 5), ("unset", 2), ("", 1)]),
            "mask": tape.weighted([("FLEX", 5), ("NONE", 2)] + ([("explicit", 3)] if pgrid == "G" else [])),
            "foo": tape.choice(["absent", "unset", "x"])}
    if pgrid == "nogrid" and tape.chance(1, 2):
        # data without spatial reference but with a declared shape (-1: flexible axis)
        prod["ngshape"] = tape.choice([[4, -1], [3], [-1], [2, 3], [-1, 2]])
    cons = []
    n = tape.weighted([(1, 5), (2, 3), (3, 1)])
    # at most one injected conflict per scenario (about a third of the runs)
    conflict_at = tape.draw(n) if tape.chance(1, 3) else None
    conflict_kind = tape.choice(["grid", "units", "mask", "adapter"])
    for ci in range(n):
        bad = conflict_at == ci
        if pgrid == "nogrid":
            grid = tape.weighted([("nogrid", 3), ("unset", 3)])
        else:
            grid = tape.weighted([("same", 3), ("relayout", 4), ("unset", 3)])
        if prod["units"] == "":
            units = tape.weighted([("unset", 3), ("", 2)])
        else:
            units = tape.weighted([("unset", 4), ("m", 3), ("km", 3)])
        mask = "NONE" if prod["mask"] == "NONE" and tape.chance(1, 2) else "FLEX"
        adapter = tape.weighted([(None, 7), ("scale", 2)])
        if pgrid == "G" and grid == "unset" and tape.chance(1, 5):
            adapter = "grid2val"
        if pgrid == "nogrid" and grid != "nogrid" and not prod.get("ngshape") and tape.chance(1, 5):
            adapter, grid = "val2grid", "same"
        if prod["units"] in ("m", "") and units == "unset" and tape.chance(1, 6):
            adapter = "sum"
        # explicit boolean masks are given per physical cell: "same" marks the producer's cells in the consumer's own
        # layout, "other" differs in one cell
        simple = pgrid == "G" and grid in ("same", "relayout") and adapter in (None, "scale")
        if prod["mask"] == "explicit" and simple and tape.chance(1, 2):
            mask = "same"
        if bad:
            if conflict_kind == "grid":
                grid = "other" if pgrid != "nogrid" else "same"
                if pgrid == "nogrid" and prod.get("ngshape") and tape.chance(2, 3):
                    # another declared shape: one fixed axis differs, or a fixed axis meets a flexible one
                    grid, adapter = "nogrid_other", None
            elif conflict_kind == "units":
                units = "s"
            elif conflict_kind == "mask":
                mask = "NONE"
                if simple and tape.chance(1, 2):
                    # a fixed-mask consumer needs a producer with exactly that mask
                    mask = "other" if prod["mask"] == "explicit" else "same"
            else:
                adapter = tape.choice(["grid2val", "val2grid", "sum"])
                if prod.get("ngshape"):
                    adapter = "sum"       # the grid adapters are only modelled for the plain NoGrid()
        c = {"time": not tape.chance(1, 3), "grid": grid, "units": units, "mask": mask,
             "foo": tape.choice(["absent", "unset", "y"]), "adapter": adapter}
        if c["grid"] == "relayout":
            c["layout"] = relayout(tape, g)
        elif c["grid"] == "other":
            o = relayout(tape, g)
            if o["type"] == "uniform":
                o["origin"] = [x + 0.5 for x in o["origin"]]
            else:
                o["axes"] = [[x + 0.25 for x in a] for a in o["axes"]]
            c["layout"] = o
        cons.append(c)
    sc = {"engine": "M", "g": g, "prod": prod, "cons": cons, "late_info": tape.chance(1, 3),
          "order": tape.shuffle(list(range(len(cons))))}
    if tape.chance(1, 80):
        # a long connect history in this process first: several hundred scalar links with unit pairs from the large
        # catalogue of C17 (about one in five incompatible), each judged by the dimension table; the process-wide unit
        # memo is then large when the scenario proper is connected
        from .c17 import XNAMES, CAT
        warm = []
        for _ in range(tape.weighted([(300, 2), (450, 3), (700, 2)])):
            a = tape.choice(XNAMES)
            b = tape.choice(XNAMES) if tape.chance(1, 5) else tape.choice([u for u in XNAMES if CAT[u][0] == CAT[a][0]])
            warm.append([a, b])
        sc["warm"] = warm
    if tape.chance(1, 3):
        # the same ends inside real components of a real composition: the producer hands a newly built Info to
        # try_connect() in every connect round (from its first or a later round on), the consumers hand theirs over in
        # seeded rounds - the exchanges of one output's consumers then happen in different rounds, with producer rounds
        # in between
        # (a round in which nobody gets anywhere ends the connect phase: only consumers wait, and only one round)
        sc["helper"] = {"prod_delay": 0, "cons_delay": [tape.draw(2) for _ in cons],
                        "listing": tape.shuffle(list(range(len(cons) + 1)))}
    return sc


class _HProd(fm.TimeComponent):
    def __init__(self, out, pinfo, delay):
        super().__init__()
        self._out, self._pinfo, self._delay, self._calls = out, pinfo, delay, 0
        self._time = dt(0)

    def _next_time(self):
        return self.time + timedelta(hours=1)

    def _initialize(self):
        self.outputs.add(self._out)
        self.create_connector()

    def _connect(self, start_time):
        self._calls += 1
        pi = {"src": self._pinfo.copy()} if self._calls > self._delay else {}
        pd = {}
        inf = self.connector.out_infos.get("src")
        if inf is not None:
            shape = tuple(1 if n == -1 else n for n in inf.grid.data_shape)
            pd["src"] = np.zeros(shape) if shape else 0.0
        self.try_connect(start_time, push_infos=pi, push_data=pd)

    def _validate(self):
        pass

    def _update(self):
        self._time = self.time + timedelta(hours=1)

    def _finalize(self):
        pass


class _HCons(fm.TimeComponent):
    def __init__(self, inp, info, delay):
        super().__init__()
        self._inp, self._info, self._delay, self._calls = inp, info, delay, 0
        self._time = dt(0)

    def _next_time(self):
        return self.time + timedelta(hours=1)

    def _initialize(self):
        self.inputs.add(self._inp)
        self.create_connector()

    def _connect(self, start_time):
        self._calls += 1
        ex = {self._inp.name: self._info} if self._calls > self._delay else {}
        self.try_connect(start_time, exchange_infos=ex)

    def _validate(self):
        pass

    def _update(self):
        self._time = self.time + timedelta(hours=1)

    def _finalize(self):
        pass


def _helper_connect(sc, out, inputs, pinfo, cinfos):
    h = sc["helper"]
    comps = [_HProd(out, pinfo, h["prod_delay"]).with_name("prod")] + \
        [_HCons(i, inf, d).with_name(f"cons{k}") for k, (i, inf, d) in enumerate(zip(inputs, cinfos, h["cons_delay"]))]
    try:
        composition = fm.Composition([comps[k] for k in h["listing"]], print_log=False, log_level=50)
        composition.connect(dt(0))
    except FinamMetaDataError as e:
        return "meta", e
    except fm.errors.FinamCircularCouplingError as e:
        return "stuck", e
    except Exception as e:      # noqa: BLE001
        return "other", e
    return "ok", None

RULE = RULE + (" Family SH (sim/shared.py): real CallbackGenerators on grids and units of their own feed one real DebugConsumer, the first optionally through a user-written pull-based component with a static scalar input; all inputs are declared with ONE request Info and the composition is built once or twice from the very same Info objects; oracles owned here: sh-run-raises, sh-info (reached through the connect simulator's generator).")
REAL = list(REAL) + ["CallbackGenerator, StaticCallbackGenerator, DebugConsumer from shared Info objects (family SH)"]


def execute(sc):
    if sc.get("engine") == "SH":
        # (family SH arrives here through the connect simulator's generator: shared request Infos, see sim/shared.py)
        from ..shared import run_shared
        r = run_shared(sc)
        r["violations"] = [x for x in r["violations"] if x["oracle"] in ("sh-run-raises", "sh-info")]
        return r
    if sc.get("engine") == "E2":
        from ..connect import run_e2
        r = run_e2(sc)
        viol = [x for x in r["violations"] if x["oracle"].startswith("meta-")]
        return {"violations": viol, "digest": r["digest"], "probes": dict(r["probes"], connect_simulator_runs=1), "faults": {},
                "nontrivial": r["status"] == "ok" and len(sc["links"]) >= 2, "sig": r["sig"], "sim_hours": 0,
                "cls": "E2:" + r["status"], "outcome": {"engine": "E2", "status": r["status"]}}
    viol = []

    def v(oracle, kind, msg):
        viol.append({"oracle": oracle, "kind": kind, "msg": msg})

    if sc.get("warm"):
        from .c17 import CAT
        from finam.data import tools as _tools
        _tools.clear_units_cache()
        for k, (a, b) in enumerate(sc["warm"]):
            wo = Output(name="o", info=Info(time=dt(0), grid=NoGrid(), units=a))
            wi = Input(name="i", info=Info(time=dt(0), grid=NoGrid(), units=b))
            wo >> wi
            wi.ping()
            ok = CAT[a][0] == CAT[b][0]
            try:
                wi.exchange_info()
                if not ok:
                    v("meta-not-rejected", "units", f"history link {k}: {a} -> {b} connected although the dimensions differ")
                    break
                if not _tools.equivalent_units(wi.info.units, b):
                    v("meta-fill", "units", f"history link {k}: {a} -> {b}: input units are {wi.info.units}")
                    break
            except FinamMetaDataError as e:
                if ok:
                    v("meta-false-reject", "reject", f"history link {k}: {a} -> {b} rejected although convertible: {e}")
                    break
            except Exception as e:      # noqa: BLE001
                v("meta-exception", type(e).__name__, f"history link {k}: {a} -> {b}: {type(e).__name__}: {e}")
                break
        if viol:
            return {"violations": viol, "digest": digest_of(sc["warm"]), "probes": {"long_unit_histories": 1}, "faults": {},
                    "nontrivial": True, "sig": "warm", "sim_hours": 0, "cls": "warm-violation", "outcome": {}}

    g = sc["g"]
    G, MG = make_grid(g), MGrid(g)
    p = sc["prod"]
    def ng(shape):
        return NoGrid(data_shape=tuple(shape)) if shape else NoGrid()

    def ng_other(shape):
        s = list(shape)
        k = next((j for j, x in enumerate(s) if x != -1), None)
        if k is None:
            s[0] = 5            # flexible axis against a fixed one
        else:
            s[k] = s[k] + 1     # another fixed length; flexible axes stay
        return s

    pg = {"G": G, "unset": None, "nogrid": ng(p.get("ngshape"))}[p["grid"]]
    pu = {"m": "m", "unset": None, "": ""}[p["units"]]
    pmeta = {}
    if p["foo"] != "absent":
        pmeta["foo"] = None if p["foo"] == "unset" else "x"
    def mloc(m, flip=False):
        b = np.round(m.field([1.0, 10.0, 100.0][: m.dim + 1]) * 3.7) % 4 == 0
        if flip:
            b = b.copy()
            b.reshape(-1)[0] = not b.reshape(-1)[0]
        return b

    pinfo = Info(time=dt(0) if p["time"] else None, grid=pg, units=pu,
                 mask=mloc(MG) if p["mask"] == "explicit" else Mask[p["mask"]], **pmeta)
    out = Output(name="src")
    inputs, eff, cinfos = [], [], []
    for ci, c in enumerate(sc["cons"]):
        if c["grid"] in ("relayout", "other"):
            cg, cm = make_grid(c["layout"]), MGrid(c["layout"])
        elif c["grid"] == "same":
            cg, cm = make_grid(g), MG
        elif c["grid"] == "nogrid":
            cg, cm = ng(p.get("ngshape")), "nogrid"
        elif c["grid"] == "nogrid_other":
            cg, cm = ng(ng_other(p["ngshape"])), "nogrid_other"
        else:
            cg, cm = None, None
        cu = None if c["units"] == "unset" else c["units"]
        cmeta = {}
        if c["foo"] != "absent":
            cmeta["foo"] = None if c["foo"] == "unset" else "y"
        cinfo = Info(time=dt(1 + ci) if c["time"] else None, grid=cg, units=cu,
                     mask=mloc(cm, c["mask"] == "other") if c["mask"] in ("same", "other") else Mask[c["mask"]], **cmeta)
        inp = Input(name=f"c{ci}") if sc.get("helper") else Input(name=f"c{ci}", info=cinfo)
        cinfos.append(cinfo)
        ad = c["adapter"]
        if ad == "scale":
            out >> Scale(2.0) >> inp
        elif ad == "grid2val":
            out >> GridToValue(np.mean) >> inp
        elif ad == "val2grid":
            out >> ValueToGrid(None) >> inp
        elif ad == "sum":
            out >> SumOverTime(per_time=True) >> inp
        else:
            out >> inp
        inputs.append(inp)
        eff.append((cg, cm, cu))
    status, exc = "ok", None
    if sc.get("helper"):
        status, exc = _helper_connect(sc, out, inputs, pinfo, cinfos)
    else:
        for i in inputs:
            i.ping()
        if not sc["late_info"]:
            out.push_info(pinfo)
    # ---- seeded exchange with retries
    pending = list(sc["order"]) if not sc.get("helper") else []
    rounds = 0
    try:
        while pending and rounds < 6:
            rounds += 1
            nxt = []
            for ci in pending:
                try:
                    inputs[ci].exchange_info()
                except FinamNoDataError:
                    nxt.append(ci)
            if nxt == pending and sc["late_info"] and rounds == 1:
                out.push_info(pinfo)
            pending = nxt
        if pending:
            status = "stuck"
    except FinamMetaDataError as e:
        status, exc = "meta", e
    except Exception as e:
        status, exc = "other", e

    # ---- expectation from the property text --------------------------------------
    def locset(m):
        return None if m is None else (m if m in ("nogrid", "nogrid_other") else m.location_set())

    conflict, undetermined = [], []
    # what each consumer effectively asks from the output (through its adapter)
    asks = []
    for ci, c in enumerate(sc["cons"]):
        cg, cm, cu = eff[ci]
        ad = c["adapter"]
        ask_grid = locset(cm)
        ask_units = cu
        if ad == "grid2val":
            # consumer side must be value data; the source side keeps whatever grid it has
            if cm not in (None, "nogrid"):
                conflict.append(f"c{ci}: GridToValue delivers NoGrid but the consumer declares a grid")
            ask_grid = None
        elif ad == "val2grid":
            if cm in (None,):
                undetermined.append(f"c{ci}: ValueToGrid without any grid")
            elif cm == "nogrid":
                undetermined.append(f"c{ci}: ValueToGrid to NoGrid")
            ask_grid = "nogrid"
        elif ad == "sum":
            ask_units = None
        asks.append((ask_grid, ask_units))
    # grids
    pl = None if p["grid"] == "unset" else ("nogrid" if p["grid"] == "nogrid" else MG.location_set())
    known = [a[0] for a in asks if a[0] is not None]
    if pl is not None:
        for ci, a in enumerate(asks):
            if a[0] is not None and a[0] != pl:
                conflict.append(f"c{ci}: grid locations differ from the producer's")
    else:
        if not known:
            undetermined.append("grid unset on both sides")
        elif any(k != known[0] for k in known):
            conflict.append("consumers ask an unset producer grid for different data locations")
        if any(a[0] is None for a in asks) and known:
            undetermined.append("order decides whether an unset consumer meets an unset producer grid")
    # units
    for ci, a in enumerate(asks):
        ad = sc["cons"][ci]["adapter"]
        cu = eff[ci][2]
        if ad == "sum":
            if pu is None:
                undetermined.append("per-time sum on unset units")
            elif cu is not None and DIM.get(cu) != DIM.get({"m": "m s", "": "s"}[pu]):
                conflict.append(f"c{ci}: units {cu} vs integrated {pu} s")
            continue
        if pu is None and a[1] is None:
            undetermined.append("units unset on both sides")
        elif pu is not None and a[1] is not None and DIM[pu] != DIM[a[1]]:
            conflict.append(f"c{ci}: units {a[1]} vs {pu}")
    if pu is None:
        us = [a[1] for a in asks if a[1] is not None]
        if any(DIM[u] != DIM[us[0]] for u in us):
            conflict.append("consumers ask unset producer units for different dimensions")
        if any(a[1] is None for a in asks) and us:
            undetermined.append("order decides whether unset consumer units meet unset producer units")
    # masks: NONE consumer only takes NONE producer
    for ci, c in enumerate(sc["cons"]):
        if c["mask"] == "NONE" and p["mask"] != "NONE":
            conflict.append(f"c{ci}: unmasked consumer on a {p['mask']} producer")
        if c["mask"] in ("same", "other") and p["mask"] != "explicit":
            conflict.append(f"c{ci}: fixed-mask consumer on a {p['mask']} producer")
        if c["mask"] == "other" and p["mask"] == "explicit":
            conflict.append(f"c{ci}: fixed-mask consumer whose mask differs from the producer's in one cell")
    # time / extra meta unset on the producer must be provided by the first consumer
    if not p["time"] and not all(c["time"] for c in sc["cons"]):
        undetermined.append("time unset on the producer and on a consumer")
    if p["foo"] == "unset" and not all(c["foo"] == "y" for c in sc["cons"]):
        undetermined.append("extra metadata unset on the producer and not provided by every consumer")

    want = "meta" if conflict else ("any" if undetermined else "ok")
    if status in ("other", "stuck"):
        v("meta-exception", type(exc).__name__ if exc else "stuck", f"exchange ended with {status}: {exc!r}; scenario {short(sc)}")
    elif want == "meta" and status != "meta":
        if not undetermined:
            v("meta-not-rejected", conflict[0][:40], f"incompatible ends were connected ({conflict}); scenario {short(sc)}")
    elif want == "ok" and status == "meta":
        v("meta-false-reject", "reject", f"compatible ends rejected: {exc}; scenario {short(sc)}")
    elif status == "ok":
        oi = out._output_info if hasattr(out, "_output_info") else None
        for ci, inp in enumerate(inputs):
            inf = inp.info
            c = sc["cons"][ci]
            cg, cm, cu = eff[ci]
            if inf.time is None or inf.grid is None or inf.units is None or inf.mask is None or \
                    any(val is None for val in inf.meta.values()):
                v("meta-unset-field", "input", f"c{ci}: input info has an unset field after connect: {inf!r} time={inf.time}; scenario {short(sc)}")
                continue
            # own set fields are kept
            if c["mask"] == "same" and not (isinstance(inf.mask, np.ndarray) and np.array_equal(inf.mask, mloc(cm))):
                v("meta-fill", "mask", f"c{ci}: own fixed mask changed by the exchange")
            if p["mask"] == "explicit" and c["mask"] == "FLEX" and c["adapter"] in (None, "scale") and \
                    isinstance(inf.mask, np.ndarray) and inf.mask.ndim:
                # a mask array recorded in the input's metadata marks the producer's cells in the input's own layout
                wm = mloc(cm if cm not in (None, "nogrid") else MG)
                if inf.mask.shape != wm.shape or not np.array_equal(inf.mask, wm):
                    v("meta-mask", "layout", f"c{ci}: mask recorded in the input's metadata does not mark the producer's "
                      f"masked cells on the input's grid; scenario {short(sc)}")
            if c["time"] and tick(inf.time) != 1 + ci:
                v("meta-fill", "time", f"c{ci}: own time overwritten")
            if cu is not None and DIM.get(str(cu)) is not None and not fm.data.tools.equivalent_units(inf.units, cu):
                v("meta-fill", "units", f"c{ci}: own units {cu} overwritten by {inf.units}")
            # unset fields carry the delivered value
            ad = c["adapter"]
            if cu is None and ad != "sum" and pu is not None and not fm.data.tools.equivalent_units(inf.units, pu):
                v("meta-fill", "units-from-source", f"c{ci}: unset units became {inf.units}, producer has {pu}")
            if cu is None and ad == "sum" and pu is not None:
                wantu = {"m": "m s", "": "s"}[pu]
                if not fm.data.tools.equivalent_units(inf.units, wantu):
                    v("meta-fill", "units-rewritten", f"c{ci}: per-time sum of {pu} delivered units {inf.units}, expected {wantu}")
            if not c["time"] and p["time"] and tick(inf.time) != 0:
                v("meta-fill", "time-from-source", f"c{ci}: unset time became {inf.time}")
            if cm is None and ad in (None, "scale", "sum") and p["grid"] == "G":
                if not isinstance(inf.grid, fm.data.grid_base.StructuredGrid) or \
                        {tuple(np.round(x, 9)) for x in np.asarray(inf.grid.data_points)} != MG.location_set():
                    v("meta-grid", "from-source", f"c{ci}: unset grid does not describe the producer's data locations")
            if cm is None and ad == "grid2val" and not isinstance(inf.grid, NoGrid):
                v("meta-grid", "rewritten", f"c{ci}: GridToValue must deliver NoGrid, input has {inf.grid}")
            if c["foo"] == "unset" and p["foo"] == "x" and inf.meta.get("foo") != "x":
                v("meta-fill", "meta-from-source", f"c{ci}: unset extra metadata not filled from the producer")
            if c["foo"] == "y" and inf.meta.get("foo") != "y":
                v("meta-fill", "meta-own", f"c{ci}: own extra metadata overwritten")
        if oi is not None:
            if oi.time is None or oi.grid is None or oi.units is None:
                v("meta-unset-field", "output", f"output info has an unset field after connect: {oi!r}")
            if p["foo"] == "unset" and oi.meta.get("foo") != "y":
                v("meta-fill", "meta-from-target", "unset producer metadata not filled from the consumer")
            if p["grid"] == "unset" and known and known[0] != "nogrid" and known[0] is not None and \
                    isinstance(oi.grid, fm.data.grid_base.StructuredGrid) and \
                    {tuple(np.round(x, 9)) for x in np.asarray(oi.grid.data_points)} != known[0]:
                v("meta-grid", "from-target", "unset producer grid does not describe the consumer's data locations")
    mixed = any((c["grid"] == "unset") != (p["grid"] == "unset") or (c["units"] == "unset") != (p["units"] == "unset")
                or c["time"] != p["time"] for c in sc["cons"])
    cls = f"{want}:{status}"
    return {"violations": viol, "digest": digest_of(sc), "nontrivial": (mixed or bool(conflict)) and status in ("ok", "meta"),
            "probes": {"undetermined": int(bool(undetermined)), "late_info": int(sc["late_info"]),
                       "long_unit_histories": int(bool(sc.get("warm"))),
                       "ends_inside_real_components": int(bool(sc.get("helper")))}, "faults": {},
            "sig": cls + str(sc["order"]), "cls": cls, "sim_hours": 0,
            "outcome": {"expected": want, "status": status, "conflict": conflict[:2], "undetermined": undetermined[:2]}}


def short(sc):
    return {"prod": sc["prod"], "cons": [{k: v for k, v in c.items() if k != "layout"} for c in sc["cons"]],
            "order": sc["order"], "late": sc["late_info"]}
