"""C20 - static slots are time independent; pull-based components are served on demand."""
from .. import bootstrap  # noqa: F401
from .. import instrument as ins
from ..core import digest_of
from ..gen import gen_e1, gen_steps, gen_adapter, PASS
from ..monitor import run_e1
from ..findings import e1_known_sig
from ..model import any_close, convert
from ..world import dt, td, tick, mag, make_adapter

import numpy as np
from finam import Info, NoGrid, Input, Output
from finam.errors import FinamStaticDataError, FinamTimeError, FinamNoDataError

ID = "C20"
LEVEL = "exploration"
ENGINE = "E1"
QUICK_RUNS = 9000
THOROUGH_RUNS = 900000
QUICK_WALL = 100
THOROUGH_WALL = 900
CHUNK = 150
RULE = ("three scenario families chosen by the seed: (S) static output/inputs under seeded request sequences "
        "incl. None times, repeated publications and static inputs (upstream fetch counted); (P) compositions in "
        "which time-stepped consumers read through one or two pull-based stubs (series, diamonds) from producers "
        "with arbitrary steps - provider call log compared with the requested times, own pulls with the provider "
        "time, C01/C02 monitors active; (W) the real WeightedSum with 1-3 value/weight pairs in mixed convertible "
        "units and 1-2 consumers. non-trivial = at least 3 provider invocations / 3 static pulls; distinct = "
        "digest of the event log")
REAL = ["Output", "Input", "CallbackOutput", "Composition", "WeightedSum", "adapters", "ConnectHelper",
        "library family (L): CsvReader, CallbackGenerator, StaticCallbackGenerator, WeightedSum, TimeTrigger, DebugConsumer, "
        "CsvWriter, DebugPushConsumer, ScheduleLogger"]
STUB = ["SimComp", "SimPull", "event driver for static slots"]
ASSUMPTIONS = ["a pull-based component serving several consumer links with a non-monotone merged request stream "
               "is the recorded finding shared-pull-component-merges-requests",
               "WeightedSum input chains are unit preserving (direct or Scale)"]
OWN_P = {"update-raises", "req-unmet", "extrapolating-get", "req-mismatch", "model-series-differs",
         "provider-time", "provider-pulls", "update-raises-other", "illegal-update"}


# ------------------------------------------------------------------------- family S
def gen_static(tape):
    n_cons = tape.rng_int(1, 3)
    cons = []
    for _ in range(n_cons):
        chain = [gen_adapter(tape, PASS) for _ in range(tape.weighted([(0, 5), (1, 3), (2, 1)]))]
        cons.append({"chain": chain, "static": tape.chance(1, 2), "units": tape.choice([None, "m", "km", "mm"])})
    events = [["PUSH", tape.choice([None, 0, 5]), 42.5]]
    for _ in range(tape.rng_int(3, 14)):
        k = tape.weighted([("PULL", 8), ("PUSH", 2)])
        if k == "PUSH":
            events.append(["PUSH", tape.choice([None, 0, 7, 100]), tape.choice([42.5, 1.0])])
        else:
            events.append(["PULL", tape.draw(n_cons), tape.choice([None, 0, 1, 5, 1000, -50])])
    if tape.chance(1, 6):
        events.insert(0, ["PULL", 0, tape.choice([None, 0])])      # before any publication
    sc = {"engine": "S", "consumers": cons, "events": events}
    if tape.chance(1, 4):
        # storage pressure: the one publication of the static output lives in a spill file
        sc["mem_limit"] = tape.choice([0, 0, 4])
    return sc


def run_static(sc):
    viol, log = [], []

    def v(oracle, kind, msg):
        viol.append({"oracle": oracle, "kind": kind, "msg": msg, "comp": ""})

    out = Output(name="src", info=Info(time=None, grid=NoGrid(), units="m"), static=True)
    spill = None
    if sc.get("mem_limit") is not None:
        import os
        import shutil
        from ..world import scratch_dir
        spill = os.path.join(scratch_dir(), "static-spill")
        shutil.rmtree(spill, ignore_errors=True)
        os.makedirs(spill, exist_ok=True)
        out.memory_limit, out.memory_location = sc["mem_limit"], spill
    labels = {id(out): "src"}
    inputs, fac = [], []
    for ci, c in enumerate(sc["consumers"]):
        cur = out
        f, add = 1.0, 0.0
        for a in c["chain"]:
            cur = cur >> make_adapter(a)
            if a["kind"] == "scale":
                f, add = f * a["f"], add * a["f"]
            else:
                add += a["c"]
        inp = Input(name=f"c{ci}", info=Info(time=None, grid=NoGrid(), units=c.get("units")), static=c["static"])
        cur >> inp
        inputs.append(inp)
        fac.append((f, add))
    for i in inputs:
        i.ping()
    for i in inputs:
        i.exchange_info()
    rec = ins.Recorder(labels=labels, tick_of=tick)
    ins.install(rec)
    published = None
    fetched = [0] * len(inputs)
    try:
        for ei, e in enumerate(sc["events"]):
            if e[0] == "PUSH":
                try:
                    out.push_data(float(e[2]), dt(e[1]) if e[1] is not None else None)
                    res = "ok"
                except FinamStaticDataError:
                    res = "FinamStaticDataError"
                except Exception as ex:
                    res = type(ex).__name__
                log.append(("PUSH", e[1], res))
                if published is None:
                    if res != "ok":
                        v("static-publish", res, f"event {ei}: first publication on a static output raised {res}")
                    else:
                        published = float(e[2])
                elif res != "FinamStaticDataError":
                    v("static-repeat", res, f"event {ei}: second publication on a static output gave {res} instead of a static-data error")
            else:
                _, ci, t = e
                n0 = sum(1 for x in rec.events if x[0] == "GET" and x[1] == "src")
                try:
                    d = inputs[ci].pull_data(dt(t) if t is not None else None)
                    res = ("val", mag(d))
                except FinamNoDataError:
                    res = ("FinamNoDataError", None)
                except Exception as ex:
                    res = (type(ex).__name__, str(ex)[:200])
                n1 = sum(1 for x in rec.events if x[0] == "GET" and x[1] == "src")
                log.append(("PULL", ci, t, res[0], res[1]))
                if published is None:
                    if res[0] != "FinamNoDataError":
                        v("static-value", res[0], f"event {ei}: pull before any publication gave {res}")
                    continue
                want = convert(published * fac[ci][0] + fac[ci][1], "m", sc["consumers"][ci].get("units") or "m")
                if res[0] != "val" or not any_close(res[1], (want,)):
                    v("static-value", res[0], f"event {ei}: consumer {ci} pull at {t}: {res}, expected {want} for every request time")
                if sc["consumers"][ci]["static"]:
                    fetched[ci] += n1 - n0
                    if fetched[ci] != 1:
                        v("static-input-refetch", "count", f"event {ei}: static input {ci} fetched upstream {fetched[ci]} times")
            if viol:
                break
    finally:
        ins.uninstall()
        if spill:
            import shutil
            shutil.rmtree(spill, ignore_errors=True)
    npull = sum(1 for x in log if x[0] == "PULL")
    return {"violations": viol, "digest": digest_of(log), "probes": {"static_pulls": npull}, "faults": {},
            "nontrivial": npull >= 3, "sig": digest_of(log), "sim_hours": 0, "cls": "S",
            "outcome": {"family": "S", "log_tail": log[-5:]}}


# ------------------------------------------------------------------------- family W
UNITS_W = ["m", "km", "mm", "cm"]


def gen_wsum(tape, pure=None):
    npairs = tape.rng_int(1, 3)
    comps, links = [], []
    ws = {"name": "ws", "kind": "wsum", "inputs": [], "outputs": [{"name": "WeightedSum", "base": 0}]}
    for k in range(npairs):
        nm = "ABC"[k]
        ws["inputs"] += [{"name": nm}, {"name": nm + "_weight"}]
    n_prod = tape.rng_int(1, 2)
    # generator-like pull-based sources (value = f(requested time)) can serve the merger for any time in any order:
    # with them consumers of different speeds are served correctly, whatever order their requests arrive in
    pure = pure if pure is not None else tape.chance(1, 3)
    for i in range(n_prod):
        if pure:
            comps.append({"name": f"g{i}", "kind": "pull", "timefn": tape.choice([1, 2, 0.5]), "inputs": [], "outputs": []})
        else:
            comps.append({"name": f"s{i}", "kind": "sim", "start": 0, "steps": gen_steps(tape), "inputs": [], "outputs": []})
    comps.append(ws)
    wi = len(comps) - 1
    for ii, inp in enumerate(ws["inputs"]):
        p = tape.draw(n_prod)
        c = comps[p]
        weight = ii % 2 == 1
        if pure and c["outputs"]:
            # one output per generator-like source keeps its time function single valued per link
            pass
        c["outputs"].append({"name": f"o{len(c['outputs'])}", "base": (0.5 if weight else 100.0 * (ii + 1)) ,
                             "inc": tape.choice([0.25, 0.5]) if weight else tape.choice([1, 2, 5]),
                             "units": "" if weight else tape.choice(UNITS_W)})
        ch = [{"kind": "scale", "f": 2}] if tape.chance(1, 5) else []
        links.append({"src": [p, len(c["outputs"]) - 1], "dst": [wi, ii], "chain": ch})
    n_cons = tape.weighted([(1, 3), (2, 2)])
    same = tape.chance(1, 2)
    st = gen_steps(tape)
    for j in range(n_cons):
        comps.append({"name": f"c{j}", "kind": "sim", "start": 0, "steps": st if same else gen_steps(tape),
                      "inputs": [{"name": "i0", "initial_pull": tape.chance(1, 2), "units": tape.choice(UNITS_W)}],
                      "outputs": []})
        ch = [{"kind": "scale", "f": tape.choice([2, 0.5])}] if tape.chance(1, 4) else []
        links.append({"src": [wi, 0], "dst": [len(comps) - 1, 0], "chain": ch})
    return {"engine": "E1", "family": "W", "components": comps, "links": links, "end": tape.choice([5, 12, 24]),
            "start_given": tape.chance(1, 2), "cycles": [],
            "listing": tape.shuffle(list(range(len(comps)))), "link_order": tape.shuffle(list(range(len(links))))}


# ------------------------------------------------------------------------- family G
def gen_wsum_grid(tape):
    """the real WeightedSum on gridded fields: value and weight producers on two layouts of one geometry (equal or
    different), the merger with or without a grid of its own, the consumer on a third layout"""
    from ..grids import gen_structured, relayout
    a = gen_structured(tape, kinds=("uniform", "rectilinear"), max_dim=2, max_len=4, min_len=2, allow_degenerate=False)
    a.pop("cast", None)
    a.pop("relocated", None)
    b = dict(a) if tape.chance(1, 2) else relayout(tape, a)
    c = dict(a) if tape.chance(1, 2) else relayout(tape, a)
    for g in (b, c):
        g.pop("cast", None)
    sc = {"engine": "G", "family": "G", "a": a, "b": b, "c": c, "ws_grid": tape.choice([None, None, "a", "b", "c"]),
          "cstep": tape.choice([1, 2, 3]), "n": tape.rng_int(2, 5), "cons_grid": tape.chance(3, 4),
          # value and/or weight reach the merger through a pull-based relay that takes its metadata from its input
          # (the merger then learns that input's grid late, in the very connect call that completes it)
          "relay": tape.weighted([(None, 3), ("value", 1), ("weight", 1), ("both", 2)])}
    if a["type"] == "uniform" and tape.chance(1, 4):
        # the weight field on ANOTHER geometry of the same shape (other spacing): nothing to merge cell by cell - the
        # merger has to refuse whatever the order of the components
        sc["b"] = dict(a, spacing=[x * 2 for x in a["spacing"]])
        sc["b_other_geometry"] = True
        sc["ws_grid"] = None
    sc["listing"] = tape.shuffle(list(range(6)))
    if tape.chance(1, 3):
        sc["pairs2"] = True
        sc["relay"] = tape.weighted([(True, 3), (False, 2), ("inner", 2)])
        if not sc.get("b_other_geometry"):
            sc["b"] = dict(sc["a"])
    return sc


def run_wsum_pairs(sc):
    """two value/weight pairs: pair A directly from one generator, pair B from another generator - directly or through
    ONE pull-based relay that passes both on and takes its metadata from its inputs; pair B on the same grid or on
    another geometry of the same shape (then the merger has to refuse, whatever the listing order)"""
    import finam as fm
    from datetime import timedelta
    from finam.components import CallbackGenerator, DebugConsumer, WeightedSum
    from finam.errors import FinamMetaDataError
    from ..grids import make_grid, MGrid
    viol, log = [], []

    def v(oracle, kind, msg):
        viol.append({"oracle": oracle, "kind": kind, "msg": msg + f"; scenario {sc}", "comp": ""})

    ga, gb = make_grid(sc["a"]), make_grid(sc["b"])
    shape_a, shape_b = MGrid(sc["a"]).data_shape(), MGrid(sc["b"]).data_shape()

    def gen(grid, shape, val, wgt, step, name):
        return CallbackGenerator({"Value": (lambda t: np.full(shape, val + tick(t)), fm.Info(time=None, grid=grid, units="m")),
                                  "Weight": (lambda t: np.full(shape, wgt), fm.Info(time=None, grid=grid, units=""))},
                                 dt(0), td(step)).with_name(name)
    gen_a = gen(ga, shape_a, 1.0, 0.25, 1, "gen_a")
    gen_b = gen(gb, shape_b, 2.0, 0.75, sc["cstep"], "gen_b")

    class Relay(fm.Component):
        def _initialize(self):
            from finam.tools.connect_helper import FromInput
            rules = {}
            for name in ("Value", "Weight"):
                self.inputs.add(name=name, time=None, grid=None, units=None)
                self.outputs.add(fm.CallbackOutput(callback=lambda caller, t: self.inputs[caller.name].pull_data(t).copy(), name=name))
                rules[name] = [FromInput(name)]
            self.create_connector(out_info_rules=rules)

        def _connect(self, start_time):
            self.try_connect(start_time)

        def _validate(self):
            pass

        def _update(self):
            pass

        def _finalize(self):
            pass
    ws = WeightedSum(inputs=["A", "B"]).with_name("ws")
    got = []
    cons = DebugConsumer({"i": fm.Info(time=None, grid=None, units=None)}, start=dt(0), step=td(sc["cstep"]),
                         callbacks={"i": lambda n, d, t: got.append((tick(t), np.array(d.magnitude)))}).with_name("cons")
    comps = [gen_a, gen_b, ws, cons]
    relay = inner = None
    if sc.get("relay") == "inner":
        # pair B is itself the result of an inner merger (pull-based, learns its metadata late); its weight in the
        # outer merger comes from generator A
        inner = WeightedSum(inputs=["X"]).with_name("inner")
        comps.append(inner)
    elif sc.get("relay"):
        relay = Relay().with_name("relay")
        comps.append(relay)
    order = [i for i in sc["listing"] if i < len(comps)]
    composition = fm.Composition([comps[i] for i in order], print_log=False, log_level=50)
    gen_a.outputs["Value"] >> ws.inputs["A"]
    gen_a.outputs["Weight"] >> ws.inputs["A_weight"]
    if inner is not None:
        gen_b.outputs["Value"] >> inner.inputs["X"]
        gen_b.outputs["Weight"] >> inner.inputs["X_weight"]
        inner.outputs["WeightedSum"] >> ws.inputs["B"]
        gen_a.outputs["Weight"] >> ws.inputs["B_weight"]
    elif relay is not None:
        gen_b.outputs["Value"] >> relay.inputs["Value"]
        gen_b.outputs["Weight"] >> relay.inputs["Weight"]
        relay.outputs["Value"] >> ws.inputs["B"]
        relay.outputs["Weight"] >> ws.inputs["B_weight"]
    else:
        gen_b.outputs["Value"] >> ws.inputs["B"]
        gen_b.outputs["Weight"] >> ws.inputs["B_weight"]
    ws.outputs["WeightedSum"] >> cons.inputs["i"]
    status = "ok"
    try:
        composition.run(start_time=dt(0), end_time=dt(sc["n"] * sc["cstep"]))
    except FinamMetaDataError as e:
        status = "refused"
        log.append(("refused", str(e)[:60]))
    except Exception as e:      # noqa: BLE001
        status = type(e).__name__
        v("weighted-sum", type(e).__name__, f"composition with a two-pair WeightedSum raised {type(e).__name__}: {str(e)[:300]}")
    if status == "ok" and sc.get("b_other_geometry"):
        v("weighted-sum", "merged-other-geometry", "pair B lives on another geometry (other spacing), but the merger accepted it and "
          f"delivered {len(got)} 'sums'")
    elif status == "refused" and not sc.get("b_other_geometry"):
        v("weighted-sum", "refused-same-grid", "all four inputs are on the same grid, but the merger refused them")
    elif status == "ok":
        for (t, arr) in got:
            want = (1.0 + t) * 0.25 + (2.0 + t) * 0.75       # consumer and generator B step together
            if inner is not None:
                want = (1.0 + t) * 0.25 + ((2.0 + t) * 0.75) * 0.25
            log.append((t, float(arr.reshape(-1)[0])))
            if arr.shape != (1,) + tuple(shape_a) or not np.allclose(arr, want, rtol=1e-12):
                v("weighted-sum", "value", f"at {t}: got {arr.reshape(-1)[:3]}, sum of value x weight is {want}")
                break
        if len(got) < sc["n"]:
            v("weighted-sum", "records", f"consumer saw {len(got)} records for {sc['n']} steps")
    return {"violations": viol, "digest": digest_of(log + [status]), "probes": {"wsum_pairs_runs": 1, "wsum_pairs_" + status: 1},
            "faults": {}, "nontrivial": status in ("ok", "refused"), "sig": digest_of([status, bool(sc.get("relay")), bool(sc.get("b_other_geometry"))]),
            "state_sigs": [], "sim_hours": sc["n"] * sc["cstep"], "cls": "G2:" + status,
            "outcome": {"family": "G2", "status": status, "records": len(got)}}


def run_wsum_grid(sc):
    if sc.get("pairs2"):
        return run_wsum_pairs(sc)
    import finam as fm
    from datetime import timedelta
    from finam.components import CallbackGenerator, DebugConsumer, WeightedSum
    from finam.errors import FinamMetaDataError
    from ..grids import make_grid, MGrid
    viol, log = [], []

    def v(oracle, kind, msg):
        viol.append({"oracle": oracle, "kind": kind, "msg": msg + f"; scenario {sc}", "comp": ""})

    ga, gb, gc = make_grid(sc["a"]), make_grid(sc["b"]), make_grid(sc["c"])
    ma, mb, mc = MGrid(sc["a"]), MGrid(sc["b"]), MGrid(sc["c"])
    cv, cw = [3.0, 1.0, 10.0][: ma.dim + 1], [1.0, 0.5, 0.25][: ma.dim + 1]
    fva, fwb = ma.field(cv), mb.field(cw)
    val = CallbackGenerator({"o": (lambda t: fva + 10.0 * tick(t), fm.Info(time=None, grid=ga, units="m"))}, dt(0), td(1))
    wgt = CallbackGenerator({"o": (lambda t: fwb.copy(), fm.Info(time=None, grid=gb, units=""))}, dt(0), td(1))
    wsg = {None: None, "a": make_grid(sc["a"]), "b": make_grid(sc["b"]), "c": make_grid(sc["c"])}[sc["ws_grid"]]
    ws = WeightedSum(inputs=["A"], grid=wsg)
    got = []
    cons = DebugConsumer({"i": fm.Info(time=None, grid=gc if sc["cons_grid"] else None, units="m")}, start=dt(0),
                         step=td(sc["cstep"]),
                         callbacks={"i": lambda n, d, t: got.append((tick(t), np.array(d.magnitude), str(d.units)))})
    comps = [val.with_name("val"), wgt.with_name("wgt"), ws.with_name("ws"), cons.with_name("cons")]

    class Relay(fm.Component):
        def _initialize(self):
            self.inputs.add(name="In", time=None, grid=None, units=None)
            self.outputs.add(fm.CallbackOutput(callback=lambda caller, t: self.inputs["In"].pull_data(t)
                                               if self.status in (fm.ComponentStatus.VALIDATED, fm.ComponentStatus.UPDATED,
                                                                  fm.ComponentStatus.CONNECTED) else None, name="Out"))
            from finam.tools.connect_helper import FromInput
            self.create_connector(out_info_rules={"Out": [FromInput("In")]})

        def _connect(self, start_time):
            self.try_connect(start_time)

        def _validate(self):
            pass

        def _update(self):
            pass

        def _finalize(self):
            pass
    vsrc, wsrc = val.outputs, wgt.outputs
    vname = wname = "o"
    rv = rw = None
    if sc.get("relay") in ("value", "both"):
        rv = Relay().with_name("rv")
        comps.append(rv)
    if sc.get("relay") in ("weight", "both"):
        rw = Relay().with_name("rw")
        comps.append(rw)
    order = [i for i in sc["listing"] if i < len(comps)]
    composition = fm.Composition([comps[i] for i in order], print_log=False, log_level=50)
    if rv is not None:
        val.outputs["o"] >> rv.inputs["In"]
        rv.outputs["Out"] >> ws.inputs["A"]
    else:
        val.outputs["o"] >> ws.inputs["A"]
    if rw is not None:
        wgt.outputs["o"] >> rw.inputs["In"]
        rw.outputs["Out"] >> ws.inputs["A_weight"]
    else:
        wgt.outputs["o"] >> ws.inputs["A_weight"]
    ws.outputs["WeightedSum"] >> cons.inputs["i"]
    status = "ok"
    try:
        composition.run(end_time=dt(sc["n"] * sc["cstep"]))
    except FinamMetaDataError as e:
        # the merger may insist on one layout for all its inputs; refusing is not delivering a wrong sum
        status = "refused"
        log.append(("refused", str(e)[:60]))
    except Exception as e:      # noqa: BLE001
        status = type(e).__name__
        v("weighted-sum", type(e).__name__, f"composition with a gridded WeightedSum raised {type(e).__name__}: {str(e)[:300]}")
    if status == "ok" and sc.get("b_other_geometry"):
        v("weighted-sum", "merged-other-geometry", "value and weight fields live on different geometries (other spacing), "
          f"but the merger accepted them and delivered {len(got)} 'sums'")
    elif status == "ok":
        # where do the delivered cells lie?  consumer with a grid of its own: its layout; otherwise the layout the
        # merger passes on (its own grid, else the common grid of its inputs - only defined when they are equal)
        if sc["cons_grid"]:
            mo = mc
        elif sc["ws_grid"]:
            mo = {"a": ma, "b": mb, "c": mc}[sc["ws_grid"]]
        else:
            mo = mb
        fv, fw = mo.field(cv), mo.field(cw)
        for (t, arr, units) in got:
            want = (fv + 10.0 * t) * fw
            log.append((t, float(arr.reshape(-1)[0])))
            if arr.shape != (1,) + want.shape:
                v("weighted-sum", "shape", f"consumer got shape {arr.shape} at {t}, expected {(1,) + want.shape}")
                break
            if not np.allclose(arr[0], want, rtol=1e-9, atol=1e-9):
                bad = int(np.sum(~np.isclose(arr[0], want, rtol=1e-9, atol=1e-9)))
                v("weighted-sum", "value", f"at {t}: {bad} of {want.size} cells are not value x weight of the same physical "
                  f"cell (first cell got {arr[0].reshape(-1)[0]}, expected {want.reshape(-1)[0]})")
                break
        if len(got) < sc["n"]:
            v("weighted-sum", "records", f"consumer saw {len(got)} records for {sc['n']} steps")
    same_ab = (ma.rev, tuple(ma.inc)) == (mb.rev, tuple(mb.inc))
    return {"violations": viol, "digest": digest_of(log + [status]), "probes": {"gridded_wsum_runs": 1, "gridded_wsum_" + status: 1,
                                                                               "gridded_wsum_layouts_differ": int(not same_ab)},
            "faults": {}, "nontrivial": status == "ok" and len(got) >= 2, "sig": digest_of([status, sc["ws_grid"], same_ab]),
            "state_sigs": [], "sim_hours": sc["n"] * sc["cstep"], "cls": "G:" + status,
            "outcome": {"family": "G", "status": status, "records": len(got)}}


def generate(tape, tier="quick"):
    if tape.chance(1, 40):
        # metadata objects shared between slots (also of a user-written pull-based component with a static input) and
        # reused for a second composition (sim/shared.py, family SH)
        from ..shared import gen_shared
        return gen_shared(tape)
    fam = tape.weighted([("P", 5), ("S", 3), ("W", 3), ("L", 1), ("G", 1)])
    if fam == "G":
        return gen_wsum_grid(tape)
    if fam == "L":
        # real library components only: the pull-based merger (with a static weight) and the TimeTrigger behind
        # real producers, in front of real consumers (sim/library.py)
        from ..library import gen_library
        sc = gen_library(tape, need_stage=True)
        return sc
    if fam == "S":
        return gen_static(tape)
    if fam == "W":
        return gen_wsum(tape)
    sc = gen_e1(tape, tier, allow_cycles=tape.chance(1, 3), allow_integrating=False)
    sc["family"] = "P"
    for ci, c in enumerate(sc["components"]):
        if c["kind"] == "pull" and "impl" not in c:
            outl = [l for l in sc["links"] if l["src"][0] == ci]
            # (one output only: finam insists that all outputs of a component end up with the same starting time, and
            # two outputs with unset times would take theirs from consumers that may start at different times)
            if outl and len(c["outputs"]) == 1 and \
                    not any(a["kind"].startswith("delay") for l in outl for a in l["chain"]) and tape.chance(3, 4):
                c["out_time"] = "unset"
    return sc


def provider_oracles(sc, r, viol):
    """provider invoked for exactly the requested time and pulls its own inputs for that time"""
    ev = r["events"]
    names = {c["name"] for c in sc["components"] if c["kind"] == "pull"}
    n = 0
    for i, e in enumerate(ev):
        if e[0] == "PROVIDER_CONNECT":
            # also while connecting (initial pulls for the composition's start) the provider sees the requested time
            for j in range(i - 1, -1, -1):
                x = ev[j]
                if x[0] == "GET" and x[1] == f"{e[1]}.{e[2]}":
                    if x[2] != e[3]:
                        viol.append({"oracle": "provider-time", "kind": "connect-time", "comp": "",
                                     "msg": f"provider of {e[1]}.{e[2]} invoked for {e[3]} while connecting but the output "
                                            f"was asked for {x[2]}"})
                    break
            continue
        if e[0] != "PROVIDER":
            continue
        n += 1
        _, pname, oname, tk, cur = e
        # the GET on this output that triggered the provider is the closest preceding GET on it
        for j in range(i - 1, -1, -1):
            x = ev[j]
            if x[0] == "GET" and x[1] == f"{pname}.{oname}":
                if x[2] != tk:
                    viol.append({"oracle": "provider-time", "kind": "time", "comp": cur or "",
                                 "msg": f"provider of {pname}.{oname} invoked for {tk} but the output was asked for {x[2]}"})
                break
        seen = set()
        for x in ev[i + 1:]:
            if x[0] in ("PROVIDER", "UPDATE_EXIT", "UPDATE_ENTER"):
                break
            if x[0] == "GET" and x[3] and x[3].startswith(pname + ".") and x[3] not in seen:
                seen.add(x[3])
                if x[2] != tk:
                    viol.append({"oracle": "provider-pulls", "kind": "time", "comp": cur or "",
                                 "msg": f"{pname} was asked for {tk} but pulled its input {x[3]} for {x[2]}"})
    return n

RULE = RULE + (" Family SH (sim/shared.py): real CallbackGenerators on grids and units of their own feed one real DebugConsumer, the first optionally through a user-written pull-based component with a static scalar input; all inputs are declared with ONE request Info and the composition is built once or twice from the very same Info objects; oracles owned here: sh-run-raises, sh-value (incl. the pull-based component being asked for exactly the consumer's request times).")
REAL = list(REAL) + ["CallbackGenerator, StaticCallbackGenerator, DebugConsumer from shared Info objects (family SH)"]


def execute(sc):
    if sc.get("engine") == "SH":
        from ..shared import run_shared
        r = run_shared(sc)
        r["violations"] = [x for x in r["violations"] if x["oracle"] in ("sh-run-raises", "sh-value")]
        return r
    if sc["engine"] == "G":
        return run_wsum_grid(sc)
    if sc["engine"] == "L":
        from ..library import run_library
        r = run_library(sc)
        r["violations"] = [v for v in r["violations"] if v["oracle"] in ("lib-run-raises", "lib-value")]
        return r
    if sc["engine"] == "S":
        return run_static(sc)
    r = run_e1(sc)
    obs = r["obs"]
    viol = [v for v in r["violations"] if v["oracle"] in OWN_P]
    n = provider_oracles(sc, r, viol)
    fam = sc.get("family", "P")
    if fam == "P" and obs["status"] == "exc" and not any(x["oracle"].startswith("update-raises") for x in r["violations"]):
        # the driver itself gave up on a valid composition with static slots / pull-based components (not a failing
        # pull inside an update, which the C01 monitor reports)
        viol.append({"oracle": "run-raises", "kind": obs["exc"], "comp": "",
                     "msg": f"connect()/run() of a valid composition raised {obs['exc']}: {obs['exc_msg']}"})
    if fam == "W":
        if obs["status"] != "ok":
            comp = ctx = ""
            for v in r["violations"]:
                if v["oracle"].startswith("update-raises"):
                    comp, ctx = v.get("comp"), v.get("shared_ctx")
            viol.append({"oracle": "weighted-sum", "kind": obs["exc"] or obs["status"], "comp": comp, "shared_ctx": ctx,
                         "msg": f"composition with WeightedSum ended with {obs['exc']}: {obs['exc_msg']}"})
        n = sum(len(s) for s in obs["series"].values())
    p = dict(r["probes"])
    p["provider_calls"] = n
    for v in viol:
        if "shared_ctx" not in v and v.get("comp"):
            v["shared_ctx"] = next((x.get("shared_ctx") for x in r["violations"] if x.get("comp") == v["comp"]
                                    and x.get("shared_ctx")), "clean")
    return {"violations": viol, "digest": r["digest"], "faults": r["faults"], "probes": p,
            "nontrivial": obs["status"] == "ok" and n >= 3, "sig": r["sig"], "state_sigs": r["state_sigs"],
            "sim_hours": r["sim_hours"], "cls": f"{fam}:{obs['status'] if obs['status'] != 'exc' else obs['exc']}",
            "outcome": {"family": fam, "status": obs["status"], "exc": obs["exc"], "provider_calls": n}}


def known_sig(sc, v):
    if sc.get("engine") in ("S", "L", "G", "SH"):
        return None
    return e1_known_sig(sc, v)
