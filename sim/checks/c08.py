"""C08 - data crossing a link keeps its values, time, units and shape."""
from fractions import Fraction

from .. import bootstrap  # noqa: F401
from ..core import digest_of
from ..grids import gen_structured, make_grid, MGrid, relayout
from ..model import convert
from ..world import dt

import numpy as np
from finam import Info, Input, Output, Mask, NoGrid
from finam.adapters.base import Scale
from finam.data.tools import UNITS
from finam.errors import FinamDataError, FinamTimeError, FinamMetaDataError

ID = "C08"
LEVEL = "exploration"
ENGINE = "E3"
QUICK_RUNS = 12000
THOROUGH_RUNS = 1200000
QUICK_WALL = 100
THOROUGH_WALL = 900
CHUNK = 200
RULE = ("one real link (output >> [Scale] >> 1-2 inputs) on NoGrid or a seeded structured grid; seeded histories of "
        "publications in every payload form (python scalars, lists, 0-d/1-d/shaped/flat arrays, arrays with time axis, "
        "masked arrays, quantities in equal / convertible / incompatible units, wrong shapes, the same array object or "
        "a view of the previously published one, a fresh copy) interleaved with pulls at, between and exactly midway "
        "between publications, before the first and beyond the newest. Oracle: nearest publication (either neighbour "
        "at the midpoint), converted with an independent unit table, shape (1,)+data shape, mask kept, refusals as "
        "stated. non-trivial = >= 3 served pulls, >= 2 payload forms; distinct = digest of the event/result log")
REAL = ["Output.push_data/get_data", "Input.pull_data", "tools.prepare/check", "to_units", "Scale"]
STUB = ["event driver standing in for producer and consumers"]
ASSUMPTIONS = ["per-consumer request times are non-decreasing", "unit factors from the independent table in sim/model.py"]
NG_FORMS = ["float", "int", "list1", "arr0", "arr1", "quantity", "quantity_conv", "quantity_bad", "bad_shape"]
G_FORMS = ["array", "array_t", "flat", "list", "masked", "quantity", "quantity_conv", "quantity_bad", "bad_shape",
           "same_obj", "view", "copy_prev"]
GAPS = [1, 2, 3, 4, 7, 2, 30, 51]
# NoGrid(dim >= 1): arrays without spatial reference whose axis lengths may change from one publication to the next
V_FORMS = ["vec", "vec", "vec_t", "vec_list", "vec_q", "vec_qconv", "quantity_bad", "vec_bad", "vec_copy"]


def generate(tape, tier="quick"):
    if tape.chance(1, 30):
        # metadata objects shared between slots and reused for a second composition (sim/shared.py, family SH)
        from ..shared import gen_shared
        return gen_shared(tape)
    gridded = tape.chance(1, 2)
    g = gen_structured(tape, max_dim=2, max_len=4) if gridded else None
    ngdim = tape.choice([1, 1, 2]) if (not gridded and tape.chance(1, 3)) else 0
    # offset units / multiplicative units / dimensionless but scaled units
    group = tape.weighted([(["m", "km", "mm"], 5), (["K", "degC"], 2), (["1", "percent", "ppm"], 1)])
    su = tape.choice(group)
    n_cons = tape.weighted([(1, 3), (2, 2)])
    cons = [{"units": tape.choice([None] + group), "grid": tape.choice(["same", "unset"]),
             "scale": tape.chance(1, 5) and group[0] != "K"} for _ in range(n_cons)]
    for cc in cons:
        # the same geometry in another layout: the link re-arranges every publication (values and mask)
        if gridded and tape.chance(1, 3):
            cc["grid"], cc["layout"] = "relayout", relayout(tape, g)
    events = []
    t = 0
    pubs = []
    last = [None] * n_cons
    k = 0
    if tape.chance(1, 8):
        # a static link: one publication without a time, pulled again and again (for any time, in any order) by
        # static inputs - every pull delivers the converted, re-arranged publication
        form = tape.choice([f for f in (G_FORMS if gridded else (V_FORMS if ngdim else NG_FORMS))
                            if f not in ("quantity_bad", "bad_shape", "same_obj", "view", "vec_bad", "copy_prev", "vec_copy")])
        events.append(["PUSH", 0, 0, form, tape.choice(group)])
        if ngdim:
            events[-1].append([tape.rng_int(1, 4) for _ in range(ngdim)])
        for _ in range(tape.rng_int(3, 9)):
            events.append(["PULL", tape.draw(n_cons), tape.choice([0, 1, 5, -3, 40, 2])])
        sc = {"engine": "D", "grid": g, "src_units": su, "consumers": cons, "events": events, "static": True,
              "mask": tape.choice(["FLEX", "FLEX", "NONE", "fixed"] if gridded else ["FLEX", "FLEX", "NONE"])}
        if ngdim:
            sc["ngdim"] = ngdim
        return sc
    # now and then a long history (a few hundred publications), with a second consumer that sleeps until the very end
    nev = tape.weighted([(10, 40), (20, 40), (35, 20), (500, 1)])
    sleeper = n_cons - 1 if nev > 100 and n_cons > 1 else None
    for ei in range(nev):
        if tape.chance(2, 5) or not pubs:
            form = tape.choice(G_FORMS if gridded else (V_FORMS if ngdim else NG_FORMS))
            if pubs:
                t += tape.choice(GAPS)
            events.append(["PUSH", t, k, form, tape.choice(group)])
            if ngdim:
                events[-1].append([tape.rng_int(1, 4) for _ in range(ngdim)])
            k += 1
            if form not in ("quantity_bad", "bad_shape", "same_obj", "view", "vec_bad"):
                pubs.append(t)
            elif form in ("same_obj", "view") and not any(e[0] == "PUSH" and e[3] in ("array", "array_t", "copy_prev")
                                                           for e in events[:-1]):
                pubs.append(t)       # nothing to share with: behaves like a plain array
        else:
            ci = tape.draw(n_cons)
            if sleeper is not None and ei < nev - 12:
                ci = tape.draw(n_cons - 1)
            lo = last[ci] if last[ci] is not None else pubs[0]
            mode = tape.weighted([("pub", 4), ("mid", 3), ("step", 4), ("newest", 2), ("future", 1), ("past", 1)])
            if mode == "pub":
                c = [p for p in pubs if p >= lo]
                tt = tape.choice(c) if c else lo
            elif mode == "mid":
                c = [Fraction(a + b, 2) for a, b in zip(pubs, pubs[1:]) if Fraction(a + b, 2) >= lo]
                tt = tape.choice(c) if c else lo
            elif mode == "newest":
                tt = pubs[-1]
            elif mode == "future":
                tt = pubs[-1] + tape.choice([1, 3])
            elif mode == "past":
                tt = pubs[0] - 1 if last[ci] is None else lo
            else:
                tt = min(Fraction(lo) + tape.choice([1, 2, Fraction(1, 2), 3]), Fraction(pubs[-1]))
            tt = Fraction(tt)
            if last[ci] is not None and tt < last[ci]:
                continue
            tt = int(tt) if tt.denominator == 1 else tt
            events.append(["PULL", ci, tt])
            if tt >= pubs[0]:
                last[ci] = tt
    sc = {"engine": "D", "grid": g, "src_units": su, "consumers": cons, "events": events,
          "mask": tape.choice(["FLEX", "FLEX", "NONE", "fixed"] if gridded else ["FLEX", "FLEX", "NONE"])}
    if ngdim:
        sc["ngdim"] = ngdim
    return sc

RULE = RULE + (' A 1/30 share is family SH (sim/shared.py): 1-3 real CallbackGenerators on grids and units of their own feed the inputs of one real DebugConsumer; all inputs are declared with ONE request Info (grid unset, units unset or convertible), and the composition is built and run once or twice from the very same Info objects with different start times; oracles owned here: all four.')
REAL = list(REAL) + ["CallbackGenerator, DebugConsumer built twice from shared Info objects (family SH)"]


def execute(sc):
    if sc.get("engine") == "SH":
        from ..shared import run_shared
        r = run_shared(sc)
        r["violations"] = [x for x in r["violations"] if x["oracle"] in ('sh-run-raises', 'sh-value', 'sh-units', 'sh-info')]
        return r
    viol, log = [], []

    def v(oracle, kind, msg):
        viol.append({"oracle": oracle, "kind": kind, "msg": msg})

    g = sc["grid"]
    ngdim = sc.get("ngdim", 0)
    G = make_grid(g) if g else NoGrid(dim=ngdim)
    M = MGrid(g) if g else None
    shape = M.data_shape() if M else ()
    su = sc["src_units"]
    base = M.field([1.0, 10.0, 100.0][: M.dim + 1]) if M else np.float64(5.0)
    maskarr = (np.round(base * 3.7) % 4 == 0) if M else None
    fixed = sc["mask"] == "fixed"
    # a fixed mask in the metadata: everything published on this output carries exactly that mask
    static = bool(sc.get("static"))
    out = Output(name="src", info=Info(time=None if static else dt(0), grid=G, units=su,
                                       mask=maskarr if fixed else Mask[sc["mask"]]), static=static)
    inputs = []
    cms = []
    for ci, c in enumerate(sc["consumers"]):
        if c["grid"] == "relayout":
            cgrid, cm_ = make_grid(c["layout"]), MGrid(c["layout"])
        else:
            cgrid, cm_ = ((make_grid(g) if g else NoGrid(dim=ngdim)) if c["grid"] == "same" else None), M
        cms.append(cm_)
        inp = Input(name=f"c{ci}", info=Info(time=None if static else dt(0), grid=cgrid, units=c["units"], mask=Mask.FLEX),
                    static=static)
        if c["scale"]:
            out >> Scale(2.0) >> inp
        else:
            out >> inp
        inputs.append(inp)
    for i in inputs:
        i.ping()
    for i in inputs:
        i.exchange_info()
    pubs = []          # (t, array in source units, mask or None)
    prev_obj = None
    forms = set()
    served = 0
    for ei, e in enumerate(sc["events"]):
        if viol:
            break
        if e[0] == "PUSH":
            _, t, k, form, pu = e[:5]
            forms.add(form)
            vals = np.asarray(base + 1000.0 * (k + 1), dtype=float)
            if ngdim:
                lens = tuple(e[5])
                vals = np.arange(int(np.prod(lens)), dtype=float).reshape(lens) * 10.0 + 1000.0 * (k + 1)
            want_ok, stored, msk = True, vals, None
            if form in ("vec", "vec_copy"):
                payload = vals.copy()
            elif form == "vec_t":
                payload = vals.copy()[np.newaxis, ...]
            elif form == "vec_list":
                payload = vals.tolist()
            elif form == "vec_q":
                payload = UNITS.Quantity(vals.copy(), su)
            elif form == "vec_qconv":
                payload = UNITS.Quantity(vals.copy(), pu)
                stored = np.asarray(convert(vals, pu, su))
            elif form == "vec_bad":
                # wrong number of axes for NoGrid(dim): two more than dim can be neither data nor data with a time axis
                payload = np.zeros((2,) * (ngdim + 2))
                want_ok = False
            elif form == "float":
                payload = float(vals)
            elif form == "int":
                payload = int(vals)
                stored = np.asarray(float(int(vals)))
            elif form == "list1":
                payload = [float(vals)]
            elif form == "arr0":
                payload = np.array(float(vals))
            elif form == "arr1":
                payload = np.array([float(vals)])
            elif form == "array":
                payload = vals.copy()
            elif form == "array_t":
                payload = vals.copy()[np.newaxis, ...]
            elif form == "flat":
                payload = vals.ravel(order=G.order).copy()
            elif form == "list":
                payload = vals.tolist()
            elif form == "masked":
                if sc["mask"] == "NONE":
                    payload = vals.copy()
                else:
                    payload = np.ma.array(vals.copy(), mask=maskarr, shrink=False)
                    msk = maskarr
            elif form == "quantity":
                payload = UNITS.Quantity(vals.copy(), su)
            elif form == "quantity_conv":
                payload = UNITS.Quantity(vals.copy(), pu)
                stored = np.asarray(convert(vals, pu, su))
            elif form == "quantity_bad":
                payload = UNITS.Quantity(vals.copy(), "s")
                want_ok = False
            elif form == "bad_shape":
                payload = np.zeros((int(np.prod(shape)) + 1,)) if M else np.zeros((2, 2))
                want_ok = False
            elif form in ("same_obj", "view"):
                if prev_obj is None:
                    payload = vals.copy()
                else:
                    prev_obj[...] = vals if prev_obj.shape == vals.shape else vals[np.newaxis, ...]
                    payload = prev_obj if form == "same_obj" else prev_obj[...]
                    want_ok = False
                    # the previously stored publication was modified in place by the producer; refusing the push
                    # is exactly what protects the consumer - nothing is appended
            elif form == "copy_prev":
                payload = vals.copy()
            try:
                out.push_data(payload, None if static else dt(t))
                ok = True
                err = None
            except FinamDataError as ex:
                ok, err = False, "FinamDataError"
            except Exception as ex:
                ok, err = False, type(ex).__name__ + ": " + str(ex)[:150]
            log.append(("PUSH", t, form, ok))
            if want_ok and not ok:
                v("push-refused", form, f"event {ei}: push of form {form} at {t} refused: {err}")
            elif not want_ok and ok:
                v("share-not-refused" if form in ("same_obj", "view") else "push-accepted", form,
                  f"event {ei}: push of form {form} at {t} was accepted")
            elif not want_ok and err != "FinamDataError" and form not in ("bad_shape", "vec_bad"):
                v("push-wrong-error", form, f"event {ei}: push of form {form} raised {err}")
            if ok:
                if fixed:
                    msk = maskarr
                pubs.append((t, np.asarray(stored, dtype=float).copy(), msk, (k, pu if form == "quantity_conv" else None)))
                if form in ("array", "array_t", "copy_prev", "same_obj", "view") and isinstance(payload, np.ndarray):
                    prev_obj = payload
                else:
                    prev_obj = None
            elif form in ("same_obj", "view") and pubs:
                # in-place modification by the producer reached the stored array (finam keeps a view): from now
                # on the last publication legitimately shows the new numbers
                pubs[-1] = (pubs[-1][0], np.asarray(vals, dtype=float).copy(), pubs[-1][2], (k, None))
        else:
            _, ci, t = e
            c = sc["consumers"][ci]
            try:
                d = inputs[ci].pull_data(dt(t))
                act = ("val", d)
            except FinamTimeError:
                act = ("FinamTimeError", None)
            except Exception as ex:
                act = (type(ex).__name__, str(ex)[:200])
            if not pubs:
                continue
            inrange = static or pubs[0][0] <= t <= pubs[-1][0]
            log.append(("PULL", ci, str(t), act[0]))
            if not inrange:
                if act[0] == "val":
                    v("range-not-refused", "range", f"event {ei}: pull at {t} outside [{pubs[0][0]}, {pubs[-1][0]}] was served")
                elif act[0] != "FinamTimeError":
                    v("link-exception", act[0], f"event {ei}: pull at {t} raised {act[0]}: {act[1]}")
                continue
            if act[0] != "val":
                v("range-false-refuse" if act[0] == "FinamTimeError" else "link-exception", act[0],
                  f"event {ei}: consumer {ci} pull at {t} in range raised {act[0]}: {act[1]}")
                continue
            served += 1
            # nearest publication(s)
            best = min(abs(Fraction(p[0]) - Fraction(t)) for p in pubs)
            cands = [p for p in pubs if abs(Fraction(p[0]) - Fraction(t)) == best]
            if static:
                cands = pubs[:1]
            cu = c["units"] or su
            f = 2.0 if c["scale"] else 1.0
            arr = d.magnitude
            if c["grid"] == "relayout":
                # every publication is an elementwise function of the cell's physical location: recompute it with
                # the consumer's own index -> coordinate arithmetic
                m2 = cms[ci]
                base2 = m2.field([1.0, 10.0, 100.0][: m2.dim + 1])
                mask2 = np.round(base2 * 3.7) % 4 == 0
                cands = [(tp, np.asarray(convert(base2 + 1000.0 * (kk + 1), pu2, su) if pu2 else base2 + 1000.0 * (kk + 1)),
                          mask2 if msk is not None else None, (kk, pu2)) for (tp, a, msk, (kk, pu2)) in cands]
            wshapes = [(1,) + tuple(p[1].shape) for p in cands] if (ngdim or c["grid"] == "relayout") else [(1,) + tuple(shape)]
            if arr.shape not in wshapes:
                v("link-shape", "shape", f"event {ei}: delivered shape {arr.shape}, expected {wshapes}")
                continue
            if not bool(UNITS.Unit(str(d.units)) == UNITS.Unit(cu)):
                v("link-units", "units", f"event {ei}: delivered units {d.units}, expected {cu}")
                continue
            okv = False
            for (tp, a, msk, _k) in cands:
                if (1,) + tuple(a.shape) != arr.shape:
                    continue
                want = convert(a * f, su, cu)
                got = np.ma.getdata(arr[0])
                if msk is not None:
                    if np.array_equal(np.ma.getmaskarray(arr[0]), msk) and np.allclose(got[~msk], np.asarray(want)[~msk], rtol=1e-9):
                        okv = True
                else:
                    if not np.any(np.ma.getmaskarray(arr[0])) and np.allclose(got, want, rtol=1e-9, atol=1e-12):
                        okv = True
            if not okv:
                v("link-value", "value", f"event {ei}: consumer {ci} pull at {t}: delivered {np.ma.getdata(arr[0]).ravel()[:4]} "
                  f"(units {d.units}); nearest publication(s) at {[p[0] for p in cands]} give {[convert(p[1] * f, su, cu).ravel()[:4].tolist() for p in cands]}")
    return {"violations": viol, "digest": digest_of(log), "nontrivial": served >= 3 and len(forms) >= 2,
            "probes": {"served": served}, "faults": {}, "sig": digest_of(sorted(forms)), "cls": "grid" if g else "nogrid",
            "sim_hours": int(pubs[-1][0]) if pubs else 0, "outcome": {"log_tail": log[-6:]}}
