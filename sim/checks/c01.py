"""C01 - scheduler never updates a component before its input data exists."""
from .. import bootstrap  # noqa: F401
from ..gen import gen_e1, chain_flags, gen_e1_long
from ..monitor import run_e1
from ..findings import e1_known_sig

ID = "C01"
LEVEL = "exploration"
ENGINE = "E1"
QUICK_RUNS = 6000
THOROUGH_RUNS = 400000
QUICK_WALL = 100
THOROUGH_WALL = 900
HANG_IS_VIOLATION = False
OWN = {"update-raises", "req-unmet", "extrapolating-get"}
RULE = ("seeded random coupling graphs (2-5 time-stepped stubs, 0-2 pull-based stubs, DAG plus "
        "delay-resolved back edges), step sequences, start offsets, omissions, adapter chains of "
        "length 0-3 in every order, listing and link permutations; a run is non-trivial if at least "
        "one update required the driver to advance an upstream component first; distinct = distinct "
        "event-log digest")
REAL = ["Composition", "Input", "Output", "CallbackOutput", "all adapters", "ConnectHelper", "Info", "units"]
STUB = ["SimComp (time-stepped)", "SimPull (pull-based)"]
ASSUMPTIONS = [
    "harness consumers pull exactly at the announced next time",
    "integration adapters only receive strictly increasing request times; no delay adapter downstream of them",
    "stub components and the reference model sim/model.py are trusted",
    "runs ending in a circular-coupling error are judged by C04, not here",
]


def generate(tape, tier="quick"):
    if tape.chance(1, 40):
        # metadata objects shared between slots and reused for a second composition (sim/shared.py, family SH)
        from ..shared import gen_shared
        return gen_shared(tape)
    if tape.chance(1, 25):
        # compositions of real library components only (sim/library.py)
        from ..library import gen_library
        return gen_library(tape)
    if tape.chance(1, 25):
        # real library components stepping with relativedelta (months from a month-end day, mixed with days)
        from ..calendar import gen_calendar
        return gen_calendar(tape)
    if tape.chance(1, 120):
        return gen_e1_long(tape)
    return gen_e1(tape, tier)


RULE = RULE + (" A 1/25 share of the runs is the calendar family (sim/calendar.py): real CallbackGenerator -> [Scale | "
               "DelayFixed] -> real CallbackComponent(s) stepping with relativedelta months/days from month-end start days, "
               "judged without a model (announced time == model time == time after the update; received publication is the "
               "one for the requested time; run ends at or beyond the end time).")
REAL = list(REAL) + ["CallbackGenerator / CallbackComponent with relativedelta steps (calendar family)"]
LIB_OWN = ('lib-run-raises', 'lib-value')
RULE = RULE + (" A 1/25 share is the library family (sim/library.py): CallbackGenerator | CsvReader (real file, irregular rows) -> "
               "[WeightedSum with a static weight] -> [TimeTrigger] -> DebugConsumer / CsvWriter (file read back) / "
               "DebugPushConsumer / ScheduleLogger, direct or through Scale; oracles here: the run does not raise and every consumer receives the publication nearest to its request.")
REAL = list(REAL) + ["CsvReader, CsvWriter, TimeTrigger, WeightedSum, StaticCallbackGenerator, DebugPushConsumer, ScheduleLogger (library family)"]
CAL_OWN = ('cal-run-raises', 'cal-value')

RULE = RULE + (' A 1/120 share is the large family (gen.gen_e1_long): a series of 14-70 components each reading its upstream neighbour while connecting, listed downstream-first / upstream-first / shuffled, or an hourly producer read through a delay of 130-260 hours by a slow consumer (and directly by a prompt one).')

RULE = RULE + (' A 1/40 share is family SH (sim/shared.py): 1-3 real CallbackGenerators on grids and units of their own feed the inputs of one real DebugConsumer; all inputs are declared with ONE request Info (grid unset, units unset or convertible), and the composition is built and run once or twice from the very same Info objects with different start times; oracles owned here: sh-run-raises, sh-value (every pull delivers what the source published for the requested time).')
REAL = list(REAL) + ["CallbackGenerator, DebugConsumer built twice from shared Info objects (family SH)"]


def execute(sc):
    if sc.get("engine") == "SH":
        from ..shared import run_shared
        r = run_shared(sc)
        r["violations"] = [x for x in r["violations"] if x["oracle"] in ('sh-run-raises', 'sh-value')]
        return r
    if sc.get("engine") == "L":
        from ..library import run_library
        r = run_library(sc)
        r["violations"] = [v for v in r["violations"] if v["oracle"] in LIB_OWN]
        return r
    if sc.get("engine") == "K":
        from ..calendar import run_calendar
        r = run_calendar(sc)
        r["violations"] = [v for v in r["violations"] if v["oracle"] in CAL_OWN]
        return r
    r = run_e1(sc)
    viol = [v for v in r["violations"] if v["oracle"] in OWN]
    obs = r["obs"]
    return {"violations": viol, "digest": r["digest"], "faults": r["faults"], "probes": r["probes"],
            "nontrivial": r["probes"].get("update_descended_into_upstream", 0) > 0 and obs["status"] == "ok",
            "sig": r["sig"], "state_sigs": r["state_sigs"], "sim_hours": r["sim_hours"],
            "cls": obs["status"] if obs["status"] != "exc" else obs["exc"],
            "outcome": {"status": obs["status"], "exc": obs["exc"], "final_times": obs["final_times"],
                        "updates": obs["n_updates"]}}


def known_sig(sc, v):
    if sc.get("engine") in ("K", "L", "SH"):
        return None
    return e1_known_sig(sc, v)
