"""C10 - spilling data to disk is invisible and leaves no files behind."""
import errno
import os
import shutil

from .. import bootstrap  # noqa: F401
from ..core import digest_of
from ..gen import STEP_POS
from ..grids import gen_structured, make_grid, MGrid
from ..world import dt, td, make_adapter, scratch_dir

import numpy as np
import finam as fm
import finam.sdk.output as out_mod
import finam.adapters.time as time_mod
from finam import Info, Input, Output, Mask, NoGrid, TimeComponent, Composition
from finam.errors import FinamTimeError

ID = "C10"
LEVEL = "fault_enumeration"
ENGINE = "E3"
QUICK_RUNS = 1500
THOROUGH_RUNS = 150000
QUICK_WALL = 110
THOROUGH_WALL = 900
CHUNK = 20
RULE = ("per seeded scenario (slot kind: plain output with 1-2 consumers | NextTime | PreviousTime | LinearTime | "
        "StepTime | AvgOverTime | SumOverTime per-time/absolute; payload scalar or gridded, plain or masked; a seeded "
        "push/pull history of <= 12 publications; limit set on the slot or inherited from a real Composition) the "
        "memory-threshold space is ENUMERATED completely: limit None (reference) and every limit in {0, s-1, s, "
        "k*s-1, k*s, k*s+1 for k=2..n} for payload size s. Oracles: consumer series identical to the reference "
        "(values, units, mask), every path given to the disk seam lies below the configured location, files present "
        "mid-run = spilled entries still referenced, no file left after finalisation. Thorough tier adds injected "
        "disk errors (ENOSPC on save, EIO on load, failing remove) with the oracle relaxed to fail-stop. "
        "non-trivial = some limit made at least one entry spill and one spilled entry was read back; distinct = "
        "digest of scenario and per-limit outcome")
REAL = ["Output._pack/_unpack/_clear_data/finalize", "TimeCachingAdapter buffers", "Composition memory settings",
        "numpy.save/load and os.remove (forwarded by the recording seam)"]
STUB = ["event driver", "disk seam proxy (records, forwards, injects faults)"]
ASSUMPTIONS = ["the scenario space is sampled, the threshold space of each scenario is enumerated completely",
               "nothing is claimed about files after a run aborted by an injected disk error"]
LEVEL_TEXT = ("fault enumeration: for every sampled scenario all memory-limit positions relative to the payload sizes are "
              "run and compared with the unlimited twin; disk errors are injected at enumerated call indices in the "
              "thorough tier")


# ---------------------------------------------------------------------- disk seam
class Seam:
    def __init__(self, root, fault=None):
        self.root = os.path.realpath(root)
        self.calls = []
        self.fault = fault       # {"op": "save"|"load"|"remove", "nth": k}
        self.count = {"save": 0, "load": 0, "remove": 0}
        self.fired = 0

    def _maybe_fail(self, op, path):
        self.count[op] += 1
        if self.fault and self.fault["op"] == op and self.count[op] == self.fault["nth"]:
            self.fired += 1
            raise OSError(errno.ENOSPC if op == "save" else errno.EIO, f"injected {op} error", path)

    def save(self, file, arr, *a, **k):
        self.calls.append(("save", str(file)))
        self._maybe_fail("save", str(file))
        return np.save(file, arr, *a, **k)

    def load(self, file, *a, **k):
        self.calls.append(("load", str(file)))
        self._maybe_fail("load", str(file))
        return np.load(file, *a, **k)

    def open(self, file, mode="r", *a, **k):
        if "w" in mode or "a" in mode or "x" in mode:
            self.calls.append(("save", str(file)))
            self._maybe_fail("save", str(file))
        return open(file, mode, *a, **k)

    def remove(self, path, *a, **k):
        self.calls.append(("remove", str(path)))
        self._maybe_fail("remove", str(path))
        return os.remove(path, *a, **k)


class _Proxy:
    def __init__(self, target, **over):
        object.__setattr__(self, "_t", target)
        object.__setattr__(self, "_o", over)

    def __getattr__(self, name):
        o = object.__getattribute__(self, "_o")
        if name in o:
            return o[name]
        return getattr(object.__getattribute__(self, "_t"), name)


class seam_installed:
    def __init__(self, seam):
        self.seam = seam

    def __enter__(self):
        self.saved = (out_mod.np, out_mod.os, time_mod.os)
        out_mod.np = _Proxy(np, save=self.seam.save, load=self.seam.load)
        out_mod.open = self.seam.open          # module global shadows the builtin (pickled masked arrays)
        out_mod.os = _Proxy(os, remove=self.seam.remove)
        time_mod.os = _Proxy(os, remove=self.seam.remove)
        return self.seam

    def __exit__(self, *a):
        out_mod.np, out_mod.os, time_mod.os = self.saved
        if "open" in out_mod.__dict__:
            del out_mod.open


# ----------------------------------------------------------------------- scenario
def generate(tape, tier="quick"):
    if tape.chance(1, 6):
        # whole compositions (engine E1): the same scenario with and without a composition-wide limit
        from ..gen import gen_e1
        sc = gen_e1(tape, tier, allow_cycles=tape.chance(1, 3), pull_fanout=False, allow_delay_push=False)
        sc["engine"] = "E1X"
        sc["limits"] = sorted({0, 8, tape.choice([16, 24, 40, 64, 200])})
        # a second composition sharing the spill location is built BEFORE this one runs and is run after it was
        # finalized (several compositions in one process default to the same location)
        sc["shared_location"] = tape.chance(1, 3)
        # ... and the location does not exist beforehand: the first composition built creates it, runs and is finalized
        # while another one, built and connected in between, still has its initial publication waiting there
        sc["fresh_location"] = tape.chance(1, 2)
        bufs = [[li, pi] for li, ln in enumerate(sc["links"]) for pi, a in enumerate(ln["chain"])
                if a["kind"] in ("next", "prev", "linear", "step", "avg", "sum") and pi >= ln.get("shared_len", 0)]
        if bufs and tape.chance(1, 2):
            # one time-buffering adapter with a memory limit of its own (its location still comes from the composition)
            sc["own_limit"] = {"at": bufs[tape.draw(len(bufs))], "limit": tape.choice([0, 8])}
        # a location whose name contains blanks and brackets ("results [2024]/run[1]") is a directory like any other
        sc["odd_location"] = tape.chance(1, 3)
        return sc
    slot = tape.choice(["output", "output", "next", "prev", "linear", "step", "avg", "sum", "sum_abs"])
    gridded = tape.chance(1, 2)
    g = gen_structured(tape, max_dim=2, max_len=4, kinds=("uniform",)) if gridded else None
    masked = gridded and tape.chance(1, 3)
    n_cons = tape.weighted([(1, 3), (2, 2)]) if slot == "output" else 1
    strictly = slot in ("avg", "sum", "sum_abs")
    events = [["PUSH", 0]]
    t, npub = 0, 1
    last = [None] * n_cons
    long = tape.chance(1, 150)
    if long:
        # a producer far ahead of its consumers: some three hundred publications wait in the slot at once
        for _ in range(tape.rng_int(270, 330)):
            t += tape.choice([1, 2, 3])
            events.append(["PUSH", t])
            npub += 1
    for _ in range(tape.weighted([(8, 3), (14, 4), (22, 2)])):
        if (tape.chance(1, 2) and npub < 12) or npub < 2:
            t += tape.choice([1, 2, 3])
            events.append(["PUSH", t])
            npub += 1
        else:
            ci = tape.draw(n_cons)
            lo = last[ci] if last[ci] is not None else 0
            tt = min(t, lo + tape.choice([0, 1, 1, 2, 4] + ([40, 150] if long else [])))
            if last[ci] is None:
                tt = 0 if tape.chance(1, 2) else tt
            if strictly and last[ci] is not None and tt <= last[ci]:
                tt = last[ci] + 1
                if tt > t:
                    continue
            events.append(["PULL", ci, tt])
            last[ci] = tt
    for ci in range(n_cons):          # final pulls so that the tail of the history is read as well
        if last[ci] is None or last[ci] < t:
            events.append(["PULL", ci, t])
    sc = {"engine": "X", "slot": slot, "grid": g, "masked": masked, "n_cons": n_cons, "events": events,
          "p": tape.choice(STEP_POS), "via_composition": tape.chance(1, 3), "slot_limit": tape.chance(1, 2),
          "units": tape.choice(["m", "mm/d"]), "odd_location": tape.chance(1, 3)}
    if tier == "thorough" and tape.chance(1, 3):
        sc["fault"] = {"op": tape.choice(["save", "load", "remove"]), "nth": tape.rng_int(1, 6)}
    return sc


def adapter_spec(sc):
    s = sc["slot"]
    if s == "output":
        return None
    if s == "step":
        return {"kind": "step", "p": sc["p"]}
    if s == "avg":
        return {"kind": "avg", "p": None}
    if s == "sum":
        return {"kind": "sum", "p": sc["p"], "per_time": True, "init": 1}
    if s == "sum_abs":
        return {"kind": "sum", "p": None, "per_time": False}
    return {"kind": s}


class Prod(TimeComponent):
    """producer used for the 'limit inherited from the composition' variant"""

    def __init__(self, info):
        super().__init__()
        self._time = dt(0)
        self._info = info

    def _next_time(self):
        return self.time + td(1)

    def _initialize(self):
        self.outputs.add(name="o", info=self._info)
        self.create_connector()

    def _connect(self, start_time):
        self.try_connect(start_time)

    def _validate(self):
        pass

    def _update(self):
        pass

    def _finalize(self):
        pass


def run_once(sc, limit, root, fault=None):
    """one execution with the given memory limit.  Returns (series, files_audit, error)"""
    g = sc["grid"]
    G = make_grid(g) if g else NoGrid()
    M = MGrid(g) if g else None
    base = M.field([1.0, 10.0, 100.0][: M.dim + 1]) if M else np.float64(5.0)
    maskarr = (np.round(base * 3.7) % 3 == 0) if (M is not None and sc["masked"]) else None
    if not sc["via_composition"]:
        os.makedirs(root, exist_ok=True)       # a Composition creates its memory location itself
    seam = Seam(root, fault)
    series, problems = [], []
    err = None
    info = Info(time=dt(0), grid=G, units=sc["units"], mask=Mask.FLEX)
    spec = adapter_spec(sc)
    with seam_installed(seam):
        try:
            if sc["via_composition"]:
                prod = Prod(info)
                if sc.get("slot_limit"):
                    # documented pattern: location from the composition, limit set on the individual slot
                    comp = Composition([prod], print_log=False, log_level=50, slot_memory_location=root)
                    prod.outputs["o"].memory_limit = limit
                else:
                    comp = Composition([prod], print_log=False, log_level=50, slot_memory_limit=limit,
                                       slot_memory_location=root)
                out = prod.outputs["o"]
            else:
                out = Output(name="o", info=info)
                out.memory_limit = limit
                out.memory_location = root
            inputs, ads = [], []
            for ci in range(sc["n_cons"]):
                inp = Input(name=f"c{ci}", info=Info(time=dt(0), grid=None, units=None, mask=Mask.FLEX))
                if spec:
                    ad = make_adapter(spec)
                    ad.memory_limit = limit
                    ad.memory_location = root
                    ads.append(ad)
                    out >> ad >> inp
                else:
                    out >> inp
                inputs.append(inp)
            for i in inputs:
                i.ping()
            for i in inputs:
                i.exchange_info()
            k = 0
            for ei, e in enumerate(sc["events"]):
                if e[0] == "PUSH":
                    vals = np.asarray(base + 1000.0 * k, dtype=float)
                    k += 1
                    payload = np.ma.array(vals.copy(), mask=maskarr, shrink=False) if maskarr is not None else vals.copy()
                    out.push_data(payload, dt(e[1]))
                else:
                    d = inputs[e[1]].pull_data(dt(e[2]))
                    m = d.magnitude
                    series.append((ei, np.ma.getdata(m).copy(), np.ma.getmaskarray(m).copy() if np.ma.isMaskedArray(m) else None,
                                   str(d.units), type(m).__name__))
                # files present = spilled entries still referenced
                spilled = [x[1] for x in out.data if isinstance(x[1], str)]
                for ad in ads:
                    spilled += [x[1] for x in ad.data if isinstance(x[1], str)]
                present = sorted(os.listdir(root)) if os.path.isdir(root) else []
                if sorted(os.path.basename(p) for p in spilled) != present:
                    problems.append(("spill-leftover", f"event {ei}: files on disk {present} vs referenced spilled entries "
                                                        f"{sorted(os.path.basename(p) for p in spilled)}"))
            # finalisation
            if sc["via_composition"]:
                prod.finalize()
            else:
                out.finalize()
            for ad in ads:
                ad.finalize()
            left = sorted(os.listdir(root)) if os.path.isdir(root) else []
            if left:
                problems.append(("spill-leftover", f"after finalisation {len(left)} file(s) remain: {left[:3]}"))
        except Exception as ex:
            err = (type(ex).__name__, str(ex)[:200])
    for op, path in seam.calls:
        rp = os.path.realpath(path)
        if op == "save" and not rp.startswith(seam.root + os.sep):
            problems.append(("spill-path", f"file {path} written outside the configured location {root}"))
    return series, problems, err, seam


def payload_size(sc):
    if sc["grid"]:
        return int(np.prod(MGrid(sc["grid"]).data_shape())) * 8
    return 8


def limits_for(sc):
    s = payload_size(sc)
    n = sum(1 for e in sc["events"] if e[0] == "PUSH")
    lims = {0, max(0, s - 1), s}
    if n > 60:
        # long histories: everything spilled, almost everything spilled, half, nothing
        return sorted(lims | {3 * s, (n // 2) * s, n * s + 1})
    for k in range(2, n + 1):
        lims |= {k * s - 1, k * s, k * s + 1}
    return sorted(lims)


def _sibling_composition(lim, root):
    import finam as fm
    from datetime import timedelta
    from finam.components import CallbackGenerator, DebugConsumer
    got = []
    gen = CallbackGenerator({"o": (lambda t: float((t - dt(0)) / td(1)), fm.Info(time=None, grid=fm.NoGrid(), units=""))},
                            dt(0), td(1))
    con = DebugConsumer({"i": fm.Info(time=None, grid=fm.NoGrid(), units="")}, start=dt(0), step=td(3),
                        callbacks={"i": lambda n, d, t: got.append(((t - dt(0)) / td(1), float(d.magnitude.reshape(-1)[0])))})
    comp = fm.Composition([gen, con], print_log=False, log_level=50, slot_memory_limit=lim, slot_memory_location=root)
    gen.outputs["o"] >> con.inputs["i"]
    return comp, got


def _run_sibling(sib):
    comp, got = sib
    try:
        comp.run(end_time=dt(9))
    except Exception as e:      # noqa: BLE001
        return f"run raised {type(e).__name__}: {str(e)[:200]}"
    if [g for g in got if abs(g[0] - g[1]) > 1e-9] or len(got) < 4:
        return f"delivered {got}"
    return None


def execute_e1(sc):
    from ..monitor import run_e1
    viol = []
    root = os.path.join(scratch_dir(), "results [2024]", "run[1] e1") if sc.get("odd_location") else os.path.join(scratch_dir(), "spill-e1")
    shutil.rmtree(root, ignore_errors=True)
    base = dict(sc, engine="E1")
    ref = run_e1(dict(base, mem_limit=None, own_limit=None), value_check=False)
    outcomes = []
    saves = loads = 0
    if ref["obs"]["status"] == "ok":
        for lim in sc["limits"]:
            shutil.rmtree(root, ignore_errors=True)
            os.makedirs(root, exist_ok=True)
            seam = Seam(root)
            with seam_installed(seam):
                sib = None
                if sc.get("shared_location"):
                    if sc.get("fresh_location"):
                        shutil.rmtree(root, ignore_errors=True)
                        first = _sibling_composition(lim, root)
                        sib = _sibling_composition(lim, root)
                        try:
                            sib[0].connect()
                        except Exception as e:      # noqa: BLE001
                            viol.append({"oracle": "spill-differs", "kind": "shared-location", "msg":
                                         f"slot_memory_limit={lim}: connecting a second composition on a shared, newly "
                                         f"created location raised {type(e).__name__}: {e}"})
                            break
                        msg = _run_sibling(first)
                        if msg:
                            viol.append({"oracle": "spill-differs", "kind": "shared-location", "msg":
                                         f"slot_memory_limit={lim}: first composition on a newly created location: {msg}"})
                            break
                    else:
                        sib = _sibling_composition(lim, root)
                r = run_e1(dict(base, mem_limit=lim), scratch=root, value_check=False)
                if sib is not None:
                    msg = _run_sibling(sib)
                    if msg:
                        viol.append({"oracle": "spill-differs", "kind": "shared-location", "msg":
                                     f"slot_memory_limit={lim}: a second composition sharing the spill location, built before "
                                     f"and run after this one: {msg}"})
                        break
            saves += sum(1 for x in seam.calls if x[0] == "save")
            loads += sum(1 for x in seam.calls if x[0] == "load")
            outcomes.append((lim, r["obs"]["status"], r["obs"]["exc"]))
            if r["obs"]["status"] != "ok":
                viol.append({"oracle": "spill-differs", "kind": str(r["obs"]["exc"]), "msg":
                             f"composition with slot_memory_limit={lim} ended with {r['obs']['exc']}: {r['obs']['exc_msg']}; it completes without limit"})
                break
            if r["obs"]["series"] != ref["obs"]["series"] or r["obs"]["final_times"] != ref["obs"]["final_times"]:
                k = next((k for k in ref["obs"]["series"] if r["obs"]["series"].get(k) != ref["obs"]["series"][k]), "?")
                viol.append({"oracle": "spill-differs", "kind": "series", "msg":
                             f"slot_memory_limit={lim}: series of {k} differs from the run without limit"})
                break
            left = sorted(os.listdir(root))
            if left:
                viol.append({"oracle": "spill-leftover", "kind": "composition", "msg":
                             f"slot_memory_limit={lim}: {len(left)} file(s) remain after the composition was finalized: {left[:3]}"})
                break
            for op, path in seam.calls:
                if op == "save" and not os.path.realpath(path).startswith(seam.root + os.sep):
                    viol.append({"oracle": "spill-path", "kind": "composition", "msg": f"file {path} outside {root}"})
    shutil.rmtree(root, ignore_errors=True)
    return {"violations": viol, "digest": digest_of([ref["digest"], outcomes]), "nontrivial": saves > 0 and loads > 0,
            "probes": {"saves": saves, "loads": loads, "e1_compositions": 1}, "faults": {"F6_limits_enumerated": len(sc["limits"])},
            "sig": ref["sig"], "cls": "E1-composition", "sim_hours": ref["sim_hours"] * (1 + len(sc["limits"])),
            "outcome": {"engine": "E1", "reference": ref["obs"]["status"], "per_limit": outcomes}}


def execute(sc):
    if sc.get("engine") == "E1X":
        return execute_e1(sc)
    viol = []

    def v(oracle, kind, msg):
        viol.append({"oracle": oracle, "kind": kind, "msg": msg})

    root = os.path.join(scratch_dir(), "results [2024]", "run[1]") if sc.get("odd_location") else os.path.join(scratch_dir(), "spill")
    shutil.rmtree(root, ignore_errors=True)
    ref, prob, err, _ = run_once(sc, None, root)
    if err or prob:
        shutil.rmtree(root, ignore_errors=True)
        return {"violations": [{"oracle": "spill-reference", "kind": (err or prob[0])[0],
                                "msg": f"reference run without limit failed: {err or prob[0]}"}],
                "digest": digest_of(sc), "nontrivial": False}
    outcomes = []
    spilled_any = loaded_any = 0
    faults = {}
    lims = limits_for(sc)
    for lim in lims:
        shutil.rmtree(root, ignore_errors=True)
        ser, prob, err, seam = run_once(sc, lim, root, sc.get("fault"))
        nsave = sum(1 for c in seam.calls if c[0] == "save")
        nload = sum(1 for c in seam.calls if c[0] == "load")
        spilled_any += nsave
        loaded_any += nload
        outcomes.append((lim, nsave, nload, err[0] if err else None))
        if seam.fired:
            faults["F9_disk_error_" + sc["fault"]["op"]] = faults.get("F9_disk_error_" + sc["fault"]["op"], 0) + 1
            # fail-stop oracle: the injected error surfaces, everything delivered before equals the reference prefix
            if err is None and sc["fault"]["op"] != "remove":
                v("spill-wrong-after-fault", "swallowed", f"limit {lim}: injected {sc['fault']} did not surface")
            elif err is not None and err[0] != "OSError":
                v("spill-wrong-after-fault", err[0], f"limit {lim}: injected disk error surfaced as {err}")
            for a, b in zip(ser, ref):
                if not same(a, b):
                    v("spill-wrong-after-fault", "value", f"limit {lim}: value delivered before the fault differs from the reference")
                    break
            continue
        if err:
            v("spill-differs", err[0], f"limit {lim} ({slot_desc(sc)}): run failed with {err} while the unlimited run succeeds")
            break
        for (kind, msg) in prob:
            v(kind, sc["slot"], f"limit {lim} ({slot_desc(sc)}): {msg}")
            break
        if viol:
            break
        if len(ser) != len(ref):
            v("spill-differs", "length", f"limit {lim}: {len(ser)} pulls served, reference {len(ref)}")
            break
        for a, b in zip(ser, ref):
            if not same(a, b):
                v("spill-differs", "value", f"limit {lim} ({slot_desc(sc)}): pull at event {a[0]} delivers {summ(a)}; without limit {summ(b)}")
                break
        if viol:
            break
    shutil.rmtree(root, ignore_errors=True)
    faults["F6_limits_enumerated"] = len(lims)
    return {"violations": viol, "digest": digest_of([sc, outcomes]), "nontrivial": spilled_any > 0 and loaded_any > 0,
            "probes": {"saves": spilled_any, "loads": loaded_any, "limits": len(lims),
                       "slots_holding_over_256_entries": int(sum(1 for e in sc["events"] if e[0] == "PUSH") > 256)}, "faults": faults,
            "sig": digest_of(outcomes), "cls": sc["slot"] + (":masked" if sc["masked"] else "") + (":grid" if sc["grid"] else ""),
            "sim_hours": len(lims) * max(e[1] for e in sc["events"] if e[0] == "PUSH"),
            "outcome": {"slot": sc["slot"], "limits": lims[:8], "per_limit(limit,saves,loads,err)": outcomes[:6]}}


def same(a, b):
    if a[3] != b[3] or (a[2] is None) != (b[2] is None):
        return False
    if a[1].dtype.kind not in "fiu" or b[1].dtype.kind not in "fiu":
        return False
    if a[1].shape != b[1].shape:
        return False
    if a[2] is not None:
        if not np.array_equal(a[2], b[2]):
            return False
        return np.allclose(a[1][~a[2]], b[1][~b[2]], rtol=1e-12, atol=0)
    return np.allclose(a[1], b[1], rtol=1e-12, atol=0)


def summ(a):
    return f"{a[1].ravel()[:3].tolist()} [{a[3]}] {a[4]}"


def slot_desc(sc):
    return f"slot {sc['slot']}, {'masked ' if sc['masked'] else ''}{'grid' if sc['grid'] else 'scalar'}" + \
        (", limit from composition" if sc["via_composition"] else "")


def extra_evidence(recs):
    return {"exhaustive_threshold_enumeration_per_scenario": True}


def known_sig(sc, v):
    return None
