"""C02 - driver follows least-advanced-first and updates only what is needed."""
from .. import bootstrap  # noqa: F401
from ..gen import gen_e1, gen_e1_long
from ..monitor import run_e1
from ..findings import e1_known_sig

ID = "C02"
LEVEL = "exploration"
ENGINE = "E1"
QUICK_RUNS = 6000
THOROUGH_RUNS = 400000
QUICK_WALL = 100
THOROUGH_WALL = 900
OWN = {"illegal-update", "req-mismatch"}
RULE = ("same scenario space as C01 with more weight on delay adapters; at every update the updated "
        "component must be reachable from a least-advanced component along 'lacks data' edges computed "
        "by the reference model, and the time asked from each component-owned output must equal the "
        "composed link definition; non-trivial = at least one update descended into an upstream component "
        "and at least one request time was compared; distinct = distinct event-log digest")
REAL = ["Composition", "Input", "Output", "CallbackOutput", "all adapters", "ConnectHelper", "Info", "units"]
STUB = ["SimComp (time-stepped)", "SimPull (pull-based)"]
ASSUMPTIONS = [
    "all components that share the minimal time count as 'furthest back' (tie-breaking unconstrained)",
    "DelayToPull request history is the observed pull sequence, never the adapter's private list",
    "stub components and the reference model sim/model.py are trusted",
]


def generate(tape, tier="quick"):
    if tape.chance(1, 15):
        # real library components stepping with relativedelta (months from a month-end day, mixed with days)
        from ..calendar import gen_calendar
        return gen_calendar(tape)
    if tape.chance(1, 60):
        return gen_e1_long(tape)
    return gen_e1(tape, tier, cycle_chance=(1, 2))


RULE = RULE + (" A 1/15 share of the runs is the calendar family (sim/calendar.py): real CallbackGenerator -> [Scale | "
               "DelayFixed] -> real CallbackComponent(s) stepping with relativedelta months/days from month-end start days, "
               "judged without a model (announced time == model time == time after the update; received publication is the "
               "one for the requested time; run ends at or beyond the end time).")
REAL = list(REAL) + ["CallbackGenerator / CallbackComponent with relativedelta steps (calendar family)"]
CAL_OWN = ('cal-announced-vs-actual', 'cal-run-raises')

RULE = RULE + (' A 1/60 share is the large family (gen.gen_e1_long): a series of 14-70 components each reading its upstream neighbour while connecting, listed downstream-first / upstream-first / shuffled, or an hourly producer read through a delay of 130-260 hours by a slow consumer (and directly by a prompt one).')


def execute(sc):
    if sc.get("engine") == "K":
        from ..calendar import run_calendar
        r = run_calendar(sc)
        r["violations"] = [v for v in r["violations"] if v["oracle"] in CAL_OWN]
        return r
    r = run_e1(sc)
    viol = [v for v in r["violations"] if v["oracle"] in OWN]
    obs = r["obs"]
    p = r["probes"]
    return {"violations": viol, "digest": r["digest"], "faults": r["faults"], "probes": p,
            "nontrivial": p.get("update_descended_into_upstream", 0) > 0 and p.get("request_time_compared", 0) > 0
            and obs["status"] == "ok",
            "sig": r["sig"], "state_sigs": r["state_sigs"], "sim_hours": r["sim_hours"],
            "cls": obs["status"] if obs["status"] != "exc" else obs["exc"],
            "outcome": {"status": obs["status"], "exc": obs["exc"], "final_times": obs["final_times"],
                        "updates": obs["n_updates"]}}


def known_sig(sc, v):
    if sc.get("engine") == "K":
        return None
    return e1_known_sig(sc, v)
