"""C13 - delay adapters deliver exactly the source's data for the shifted time."""
from .. import bootstrap  # noqa: F401
from ..gen import gen_adapter, gen_e1, PASS
from ..link import run_e3, gen_events
from ..monitor import run_e1
from ..findings import e1_known_sig

ID = "C13"
LEVEL = "exploration"
ENGINE = "E3"
QUICK_RUNS = 20000
THOROUGH_RUNS = 2500000
QUICK_WALL = 100
THOROUGH_WALL = 900
CHUNK = 300
OWN3 = {"link-value", "delay-time", "range-false-refuse", "range-not-refused", "link-exception", "push-raises"}
OWN1 = {"req-mismatch", "req-unmet", "illegal-update", "model-series-differs", "update-raises"}
RENAME = {"link-value": "delay-value"}
RULE = ("E3 (5 of 6 runs): chains of 1-3 delay adapters (DelayFixed with delays 0, smaller/larger than the gaps, "
        "non-multiples; DelayToPull with 1-4 steps and extra delay; DelayToPush) mixed with pass-through adapters, "
        "seeded push/pull interleavings; a spy on the source output compares the time that reaches it with the "
        "composed definitions and the value with the source's data for that time. E1 (1 of 6 runs): delay-heavy "
        "compositions where the driver's assumption (C02 oracle) must equal the actual request. non-trivial = a "
        "shifted request reached the source at least 3 times; distinct = digest of the event/result log")
REAL = ["Output", "Input", "DelayFixed", "DelayToPull", "DelayToPush", "Scale", "Callback", "Composition (E1 part)"]
STUB = ["event driver (E3)", "SimComp/SimPull (E1)"]
ASSUMPTIONS = ["start time of a delay adapter = the time declared by its source's metadata",
               "a delayed time is never later than the request itself (see fix: c5e5ccd)",
               "request times are non-decreasing"]


def generate(tape, tier="quick"):
    if tape.chance(1, 6):
        sc = gen_e1(tape, tier, allow_buffering=tape.chance(1, 2), cycle_chance=(2, 3), allow_omission=False)
        return sc
    n = tape.weighted([(1, 5), (2, 4), (3, 2)])
    chain = []
    for _ in range(n):
        k = tape.weighted([("delay_fixed", 5), ("delay_pull", 4), ("delay_push", 2)])
        a = {"kind": k}
        if k == "delay_fixed":
            a["d"] = tape.choice([0, 1, 2, 3, 5, 8, 13, 26, 49])
        elif k == "delay_pull":
            a["n"] = tape.rng_int(1, 4)
            a["x"] = tape.choice([0, 0, 1, 3])
        chain.append(a)
    for _ in range(tape.weighted([(0, 4), (1, 3), (2, 1)])):
        chain.insert(tape.draw(len(chain) + 1), gen_adapter(tape, PASS))
    t0 = tape.choice([0, 0, 3])
    events = gen_events(tape, 1, tape.weighted([(15, 16), (30, 16), (60, 8), (400, 1)]), halves=True)
    if t0:
        events = [[e[0], e[1] + t0, e[2]] if e[0] == "PUSH" else [e[0], e[1], e[2] + t0] for e in events]
    sc = {"engine": "E3", "t0": t0, "src": {"units": ""}, "consumers": [{"chain": chain}], "events": events, "api": tape.draw(16)}
    if tape.chance(1, 3):
        # the consumer declares a later start of its own in its metadata: the lower clamp stays the source's start
        sc["consumers"][0]["info_t"] = t0 + tape.choice([1, 2, 5, 30])
    if tape.chance(1, 5):
        sc["src"]["mem_limit"] = tape.choice([0, 0, 10])
    return sc


def execute(sc):
    if sc["engine"] == "E1":
        r = run_e1(sc)
        viol = [v for v in r["violations"] if v["oracle"] in OWN1]
        obs = r["obs"]
        return {"violations": viol, "digest": r["digest"], "faults": r["faults"], "probes": r["probes"],
                "nontrivial": r["probes"].get("request_time_compared", 0) >= 3 and obs["status"] == "ok",
                "sig": r["sig"], "state_sigs": r["state_sigs"], "sim_hours": r["sim_hours"], "cls": "E1:" + str(obs["status"]),
                "outcome": {"engine": "E1", "status": obs["status"], "exc": obs["exc"]}}
    r = run_e3(sc)
    viol = [dict(v, oracle=RENAME.get(v["oracle"], v["oracle"])) for v in r["violations"] if v["oracle"] in OWN3]
    p = r["probes"]
    return {"violations": viol, "digest": r["digest"], "probes": p, "faults": {},
            "nontrivial": p.get("source_request_compared", 0) >= 3, "sig": r["digest"],
            "sim_hours": int(max([e[1] for e in sc["events"] if e[0] == "PUSH"] or [0])), "cls": "E3",
            "outcome": {"engine": "E3", "pulls": r["n_pulls"], "pushes": r["n_push"], "log_tail": r["log"][-5:]}}


def known_sig(sc, v):
    if sc["engine"] == "E1":
        return e1_known_sig(sc, v)
    return None
