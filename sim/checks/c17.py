"""C17 - units: compatibility is dimensional equality, conversion is physically exact."""
from .. import bootstrap  # noqa: F401
from ..core import digest_of
from ..world import dt

import numpy as np
import finam as fm
from finam import Info, Input, Output, NoGrid
from finam.data import tools
from finam.errors import FinamDataError, FinamMetaDataError

ID = "C17"
LEVEL = "exploration"
ENGINE = "E3"
QUICK_RUNS = 3000
THOROUGH_RUNS = 300000
QUICK_WALL = 100
THOROUGH_WALL = 900
CHUNK = 50
RULE = ("catalogue of 43 units (SI prefixes, UDUNITS-style powers, rates, degC/K offset pair, percent, dimensionless "
        "aliases, equivalent spellings, derived units) with a hand-written table (dimension vector, factor, offset); "
        "each run is a seeded HISTORY of 20-60 operations: compatible_units / equivalent_units queries in seeded "
        "order (reversed pair first, repeated), clear_units_cache, to_units on arrays, and real link traffic "
        "(quantity pushed in foreign units -> output units -> input units); every answer must equal the table and "
        "equal the first answer for that pair in this process history. non-trivial = history mixes >= 3 operation "
        "kinds and >= 1 link; distinct = digest of the operation list. A 1/40 share are long histories: 700-2600 "
        "queries over a catalogue enlarged by ten SI prefixes on eight bases (123 spellings), then conversions and link "
        "traffic on further pairs - the process-wide memo then holds far more than a thousand pairs")
REAL = ["compatible_units", "equivalent_units", "to_units", "clear_units_cache", "prepare", "Input", "Output", "Info"]
STUB = ["operation driver"]
ASSUMPTIONS = ["the hand-written unit table in this file is the oracle (no pint in the expected values)",
               "float tolerance 1e-9 relative"]
LEVEL_NOTE = ("pairs are input space; the simulator contributes the seeded query order (process-global memo) and real "
              "link traffic; trusted base: the table in sim/checks/c17.py")

# name: ((L, T, M, K), factor, offset)
D0 = (0, 0, 0, 0)
CAT = {
    "m": ((1, 0, 0, 0), 1.0, 0.0), "km": ((1, 0, 0, 0), 1e3, 0.0), "mm": ((1, 0, 0, 0), 1e-3, 0.0),
    "cm": ((1, 0, 0, 0), 1e-2, 0.0), "meter": ((1, 0, 0, 0), 1.0, 0.0), "metre": ((1, 0, 0, 0), 1.0, 0.0),
    "m2": ((2, 0, 0, 0), 1.0, 0.0), "m**2": ((2, 0, 0, 0), 1.0, 0.0), "km2": ((2, 0, 0, 0), 1e6, 0.0),
    "ha": ((2, 0, 0, 0), 1e4, 0.0), "m3": ((3, 0, 0, 0), 1.0, 0.0), "l": ((3, 0, 0, 0), 1e-3, 0.0),
    "s": ((0, 1, 0, 0), 1.0, 0.0), "min": ((0, 1, 0, 0), 60.0, 0.0), "h": ((0, 1, 0, 0), 3600.0, 0.0),
    "d": ((0, 1, 0, 0), 86400.0, 0.0), "day": ((0, 1, 0, 0), 86400.0, 0.0),
    "m/s": ((1, -1, 0, 0), 1.0, 0.0), "m s-1": ((1, -1, 0, 0), 1.0, 0.0), "km/h": ((1, -1, 0, 0), 1e3 / 3600.0, 0.0),
    "mm/d": ((1, -1, 0, 0), 1e-3 / 86400.0, 0.0), "mm d-1": ((1, -1, 0, 0), 1e-3 / 86400.0, 0.0),
    "mm/h": ((1, -1, 0, 0), 1e-3 / 3600.0, 0.0), "m3/s": ((3, -1, 0, 0), 1.0, 0.0), "m3 s-1": ((3, -1, 0, 0), 1.0, 0.0),
    "l/s": ((3, -1, 0, 0), 1e-3, 0.0),
    "kg": ((0, 0, 1, 0), 1.0, 0.0), "g": ((0, 0, 1, 0), 1e-3, 0.0),
    "kg m-2 s-1": ((-2, -1, 1, 0), 1.0, 0.0), "kg/m2/s": ((-2, -1, 1, 0), 1.0, 0.0),
    "g m-2 d-1": ((-2, -1, 1, 0), 1e-3 / 86400.0, 0.0),
    "Pa": ((-1, -2, 1, 0), 1.0, 0.0), "hPa": ((-1, -2, 1, 0), 100.0, 0.0), "N": ((1, -2, 1, 0), 1.0, 0.0),
    "W m-2": ((0, -3, 1, 0), 1.0, 0.0), "J": ((2, -2, 1, 0), 1.0, 0.0),
    "K": ((0, 0, 0, 1), 1.0, 0.0), "degC": ((0, 0, 0, 1), 1.0, 273.15),
    "": (D0, 1.0, 0.0), "1": (D0, 1.0, 0.0), "%": (D0, 0.01, 0.0), "percent": (D0, 0.01, 0.0),
    "dimensionless": (D0, 1.0, 0.0),
}
NAMES = sorted(CAT)
# the long-history family draws from a larger catalogue: every SI prefix below on eight bases (all checked once against
# the dimension table by hand: none of these spellings means another unit, e.g. "min" and "cd" are left out)
_PREF = {"n": 1e-9, "u": 1e-6, "m": 1e-3, "c": 1e-2, "d": 1e-1, "da": 10.0, "h": 100.0, "k": 1e3, "M": 1e6, "G": 1e9}
_BASES = {"m": ((1, 0, 0, 0), 1.0), "g": ((0, 0, 1, 0), 1e-3), "s": ((0, 1, 0, 0), 1.0), "Pa": ((-1, -2, 1, 0), 1.0),
          "J": ((2, -2, 1, 0), 1.0), "W": ((2, -3, 1, 0), 1.0), "N": ((1, -2, 1, 0), 1.0), "l": ((3, 0, 0, 0), 1e-3)}
for _b, (_d, _f) in _BASES.items():
    for _p, _pf in _PREF.items():
        CAT.setdefault(_p + _b, (_d, _pf * _f, 0.0))
XNAMES = sorted(CAT)


def conv(x, a, b):
    (_, fa, oa), (_, fb, ob) = CAT[a], CAT[b]
    return (x * fa + oa - ob) / fb


def compat(a, b):
    return CAT[a][0] == CAT[b][0]


def equiv(a, b):
    return compat(a, b) and abs(conv(1.0, a, b) - 1.0) <= 1e-8


def generate(tape, tier="quick"):
    if tape.chance(1, 30):
        # metadata objects shared between slots and reused for a second composition (sim/shared.py, family SH)
        from ..shared import gen_shared
        return gen_shared(tape)
    if tape.chance(1, 60 if tier == "quick" else 25):
        # exhaustive sub-sweep: every ordered pair of the catalogue, both relations, in a seeded order
        pairs = tape.shuffle([(a, b) for a in NAMES for b in NAMES])
        ops = []
        for (a, b) in pairs:
            ops.append([tape.choice(["compat", "equiv"]), a, b])
            ops.append(["equiv" if ops[-1][0] == "compat" else "compat", a, b])
        return {"engine": "U", "ops": ops, "clear_first": tape.chance(1, 2), "all_pairs": True}
    if tape.chance(1, 40):
        # long history: one to three thousand queries over the large catalogue (more than a thousand distinct pairs in
        # the process-wide memo), then conversions and link traffic on pairs never seen before
        ops = []
        for _ in range(tape.weighted([(700, 2), (1300, 3), (2600, 2)])):
            a = tape.choice(XNAMES)
            b = tape.choice([u for u in XNAMES if CAT[u][0] == CAT[a][0]]) if tape.chance(1, 3) else tape.choice(XNAMES)
            ops.append([tape.choice(["compat", "equiv"]), a, b])
        for _ in range(12):
            a = tape.choice(XNAMES)
            same = [u for u in XNAMES if CAT[u][0] == CAT[a][0]]
            b = tape.choice(same) if tape.chance(3, 4) else tape.choice(XNAMES)
            if tape.chance(1, 2):
                ops.append(["convert", a, b, tape.choice([0.0, 1.0, 2.5, 1000.0])])
            else:
                ops.append(["link", a, b, tape.choice(same) if tape.chance(3, 4) else tape.choice(XNAMES),
                            tape.choice([1.0, 2.5, 300.0]), tape.choice([0, 0, 1, 2])])
        return {"engine": "U", "ops": ops, "clear_first": True, "long_history": True}
    n = tape.weighted([(20, 4), (40, 3), (60, 1)])
    pool = [tape.choice(NAMES) for _ in range(tape.rng_int(3, 8))]
    ops = []
    for _ in range(n):
        k = tape.weighted([("compat", 6), ("equiv", 6), ("swap", 3), ("clear", 1), ("convert", 3), ("link", 2), ("slink", 1)])
        a, b = tape.choice(pool), tape.choice(pool)
        if tape.chance(1, 3):
            # prefer pairs of one dimension
            same = [u for u in NAMES if CAT[u][0] == CAT[a][0]]
            b = tape.choice(same)
        if k == "clear":
            ops.append(["clear"])
        elif k == "swap":
            ops.append([tape.choice(["compat", "equiv"]), b, a])
            ops.append([tape.choice(["compat", "equiv"]), a, b])
        elif k == "convert":
            ops.append(["convert", a, b, tape.choice([0.0, 1.0, 2.5, -40.0, 1000.0])])
        elif k == "slink":
            # a static link: one publication, pulled three times by a static input that asks for other units
            same = [u for u in NAMES if CAT[u][0] == CAT[a][0]]
            ops.append(["slink", a, tape.choice(same), tape.choice(same), tape.choice([1.0, 2.5, 300.0])])
        elif k == "link":
            same = [u for u in NAMES if CAT[u][0] == CAT[a][0]]
            c = tape.choice(same) if tape.chance(3, 4) else tape.choice(pool)
            # grid form of the link: 0 - no grid, 1 - the same grid at both ends, 2/3 - the consumer uses another layout
            # of the producer's grid (flipped axis / reversed axes order), so the data is re-arranged AND converted,
            # 4 - a scalar spread over the consumer's grid by the ValueToGrid adapter, 5 - a field reduced to its mean
            # by the GridToValue adapter
            ops.append(["link", a, b, c, tape.choice([1.0, 2.5, 300.0]), tape.choice([0, 0, 1, 2, 3, 4, 5])])
        else:
            ops.append([k, a, b])
    return {"engine": "U", "ops": ops, "clear_first": tape.chance(1, 2)}

RULE = RULE + (' A 1/30 share is family SH (sim/shared.py): 1-3 real CallbackGenerators on grids and units of their own feed the inputs of one real DebugConsumer; all inputs are declared with ONE request Info (grid unset, units unset or convertible), and the composition is built and run once or twice from the very same Info objects with different start times; oracles owned here: sh-run-raises, sh-units, sh-info.')
REAL = list(REAL) + ["CallbackGenerator, DebugConsumer built twice from shared Info objects (family SH)"]


def execute(sc):
    if sc.get("engine") == "SH":
        from ..shared import run_shared
        r = run_shared(sc)
        r["violations"] = [x for x in r["violations"] if x["oracle"] in ('sh-run-raises', 'sh-units', 'sh-info')]
        return r
    viol = []
    first = {}
    kinds = set()
    nlink = 0

    def v(oracle, kind, msg):
        viol.append({"oracle": oracle, "kind": kind, "msg": msg})

    if sc["clear_first"]:
        tools.clear_units_cache()
    for oi, op in enumerate(sc["ops"]):
        k = op[0]
        kinds.add(k)
        try:
            if k == "clear":
                tools.clear_units_cache()
            elif k in ("compat", "equiv"):
                a, b = op[1], op[2]
                fn = tools.compatible_units if k == "compat" else tools.equivalent_units
                # the helpers accept unit strings, pint units and quantities alike
                form = (oi + len(a) + 2 * len(b)) % 4
                aa = tools.UNITS.Unit(a) if form == 1 else (tools.UNITS.Quantity(np.array([1.0, 2.0]), a) if form == 2 else a)
                bb = tools.UNITS.Unit(b) if form == 3 else b
                if a == "" and form == 2:
                    aa = a
                got = bool(fn(aa, bb))
                want = compat(a, b) if k == "compat" else equiv(a, b)
                if got != want:
                    v("unit-compat" if k == "compat" else "unit-equiv", f"{a}|{b}",
                      f"op {oi}: {fn.__name__}({a!r}, {b!r}) = {got}, table says {want}")
                key = (k, a, b)
                if key in first and first[key] != got:
                    v("unit-history", f"{a}|{b}", f"op {oi}: {fn.__name__}({a!r}, {b!r}) = {got} but was {first[key]} earlier in this history")
                first.setdefault(key, got)
            elif k == "convert":
                a, b, x = op[1], op[2], op[3]
                q = tools.UNITS.Quantity(np.array([x, x + 1.0]), a)
                try:
                    r = tools.to_units(q, b, check_equivalent=True)
                    if not compat(a, b):
                        v("unit-convert", f"{a}|{b}", f"op {oi}: to_units {a}->{b} accepted although dimensions differ")
                    else:
                        want = np.array([conv(x, a, b), conv(x + 1.0, a, b)])
                        if not np.allclose(r.magnitude, want, rtol=1e-9, atol=1e-12):
                            v("unit-convert", f"{a}|{b}", f"op {oi}: to_units({x} {a} -> {b}) = {r.magnitude.tolist()}, table gives {want.tolist()}")
                except Exception as e:
                    if compat(a, b):
                        v("unit-convert", f"{a}|{b}", f"op {oi}: to_units {a}->{b} raised {type(e).__name__}: {e}")
            elif k == "slink":
                nlink += 1
                a, b, c, x = op[1:5]
                out = Output(name="o", info=Info(time=None, grid=NoGrid(), units=b), static=True)
                inp = Input(name="i", info=Info(time=None, grid=NoGrid(), units=c), static=True)
                out >> inp
                inp.ping()
                inp.exchange_info()
                out.push_data(tools.UNITS.Quantity(x, a), None)
                want = conv(conv(x, a, b), b, c)
                for n in range(3):
                    got = inp.pull_data(dt(n) if n else None)
                    gv = float(np.asarray(got.magnitude).reshape(-1)[0])
                    if abs(gv - want) > 1e-9 * max(1.0, abs(want)) or not bool(tools.equivalent_units(got.units, c)):
                        v("unit-convert", f"{a}|{b}|{c}", f"op {oi}: static link, pull {n + 1}: {x} {a} pushed to a {b} output and "
                          f"pulled as {c}: got {gv} {got.units}, table gives {want} {c}")
                        break
            elif k == "link":
                nlink += 1
                a, b, c, x = op[1:5]
                gform = op[5] if len(op) > 5 else 0
                ga = gb = NoGrid()
                fld_a = fld_b = None
                if gform:
                    from ..grids import make_grid, MGrid
                    spa = {"type": "uniform", "dims": [3, 4], "order": "C", "rev": False, "inc": [True, True], "loc": "cells",
                           "spacing": [1.0, 2.0], "origin": [0.0, 0.0]}
                    spb = dict(spa, **({}, {}, {"inc": [True, False]}, {"rev": True, "order": "F"}, {}, {})[gform])
                    ga, gb = make_grid(spa), make_grid(spb)
                    fld_a, fld_b = MGrid(spa).field([0.0, 1.0, 0.125]), MGrid(spb).field([0.0, 1.0, 0.125])
                if gform == 4:
                    from finam.adapters.base import ValueToGrid
                    ga, fld_a, fld_b = NoGrid(), None, np.zeros(fld_b.shape)
                out = Output(name="o", info=Info(time=dt(0), grid=ga, units=b))
                inp = Input(name="i", info=Info(time=dt(0), grid=gb if (gform != 4 or oi % 2) else None, units=c))
                if gform == 4:
                    out >> ValueToGrid(gb) >> inp
                elif gform == 5:
                    from finam.adapters.base import GridToValue
                    inp = Input(name="i", info=Info(time=dt(0), grid=NoGrid(), units=c))
                    out >> GridToValue(np.mean) >> inp
                    fld_b = np.full((), float(np.mean(fld_a)))
                else:
                    out >> inp
                inp.ping()
                try:
                    inp.exchange_info()
                    if not compat(b, c):
                        v("unit-convert", f"{b}|{c}", f"op {oi}: link {b}->{c} connected although dimensions differ")
                        continue
                except FinamMetaDataError:
                    if compat(b, c):
                        v("unit-convert", f"{b}|{c}", f"op {oi}: link {b}->{c} refused although dimensions are equal")
                    continue
                try:
                    out.push_data(tools.UNITS.Quantity(x if fld_a is None else x + fld_a, a), dt(0))
                    if not compat(a, b):
                        v("unit-convert", f"{a}|{b}", f"op {oi}: pushing {a} data to a {b} output accepted")
                        continue
                except FinamDataError:
                    if compat(a, b):
                        v("unit-convert", f"{a}|{b}", f"op {oi}: pushing {a} data to a {b} output refused")
                    continue
                got = inp.pull_data(dt(0))
                want = conv(conv(x, a, b), b, c)
                gv = float(np.asarray(got.magnitude).reshape(-1)[0])
                if fld_b is not None:
                    want_arr = np.vectorize(lambda y: conv(conv(y, a, b), b, c))(x + fld_b)
                    garr = np.asarray(got.magnitude)
                    if garr.shape != (1,) + want_arr.shape or not np.allclose(garr[0], want_arr, rtol=1e-9, atol=1e-9):
                        v("unit-convert", f"{a}|{b}|{c}", f"op {oi}: field in {a} pushed to a {b} output and pulled as {c} on "
                          f"another layout of the grid (form {gform}): got {garr.reshape(-1)[:3].tolist()}, table gives "
                          f"{want_arr.reshape(-1)[:3].tolist()}")
                elif abs(gv - want) > 1e-9 * max(1.0, abs(want)):
                    v("unit-convert", f"{a}|{b}|{c}", f"op {oi}: {x} {a} pushed to a {b} output and pulled as {c}: got {gv}, table gives {want}")
                if not equiv(str(c), str(c)) or not bool(tools.equivalent_units(got.units, c)):
                    v("unit-convert", f"label|{c}", f"op {oi}: delivered units {got.units}, expected {c}")
        except (FinamDataError, FinamMetaDataError, Exception) as e:   # noqa: B014
            v("unit-exception", type(e).__name__, f"op {oi} {op}: {type(e).__name__}: {e}")
        if viol:
            break
    if sc.get("all_pairs") or sc.get("long_history"):
        kinds |= {"all-pairs-sweep", "x", "y"}
        nlink = max(nlink, 1)
    return {"violations": viol, "digest": digest_of(sc["ops"]), "nontrivial": len(kinds) >= 3 and nlink >= 1,
            "probes": {"ops": len(sc["ops"]), "links": nlink, "pairs": len(first),
                       "histories_with_over_1000_distinct_pairs": int(len({(o[1], o[2]) for o in sc["ops"] if len(o) > 2}) > 1000)}, "faults": {},
            "sig": digest_of(sorted(kinds)), "cls": "all-pairs" if sc.get("all_pairs") else ("long-history" if sc.get("long_history") else "history"), "sim_hours": 0,
            "outcome": {"ops_head": sc["ops"][:5]}}
