"""C14 - grid index-to-coordinate mapping is consistent for every layout."""
from .. import bootstrap  # noqa: F401
from ..core import digest_of
from ..grids import gen_structured, make_grid, MGrid

import numpy as np
from finam import Location

ID = "C14"
LEVEL = "exploration"
ENGINE = "E1"
QUICK_RUNS = 12000
THOROUGH_RUNS = 1200000
QUICK_WALL = 100
THOROUGH_WALL = 900
CHUNK = 200
RULE = ("seeded structured grids from the full product (uniform/rectilinear/ESRI, 1-3 dimensions, axis lengths 1-5 "
        "incl. degenerate axes, C/F order, axes_reversed, per-axis direction, cell/point data) put through a seeded "
        "HISTORY of public operations (property reads, copy, deep copy, data_location changes, casts); after every "
        "operation: element at multi-index i <-> data_axes <-> data_points[flatten(i)] <-> the simulator's own "
        "arithmetic, cell centres = mean of cell nodes, cells reference existing points, unstructured cast preserves "
        "all of it, shape/size/points reflect the CURRENT location. non-trivial = history contains a data_location "
        "change after a read, or dim >= 2 with a non-default layout flag; distinct = digest of spec and history")
REAL = ["UniformGrid", "RectilinearGrid", "EsriGrid", "UnstructuredGrid (cast)", "grid_tools"]
STUB = ["operation driver"]
ASSUMPTIONS = ["the layout product is configuration swarm; only the operation history is a schedule dimension",
               "M-grid (sim/grids.py) is the independent index->coordinate arithmetic"]
LEVEL_NOTE = ("mostly configuration/input space: the simulator contributes the seeded swarm and the operation-history "
              "clause (memoisation vs. data-location changes); trusted base: numpy, sim/grids.py MGrid")
OPS = ["read_shape", "read_size", "read_points", "read_cells", "read_axes", "copy", "deepcopy", "set_loc",
       "to_unstructured", "cast", "cast_mutate"]


def generate(tape, tier="quick"):
    sp = gen_structured(tape, big_coords=True)
    n = tape.weighted([(3, 3), (6, 4), (10, 2)])
    if tape.chance(1, 300):
        # a large grid now and then (more than four thousand cells: chunked or cached code paths)
        sp = gen_structured(tape, dim=2, min_len=66, max_len=80, kinds=("uniform", "rectilinear"))
        n = 3
    ops = []
    for _ in range(n):
        op = tape.choice(OPS)
        if op == "set_loc":
            ops.append([op, tape.draw(4), tape.choice(["cells", "points"])])
        else:
            ops.append([op, tape.draw(4)])
    return {"engine": "G", "grid": sp, "ops": ops}


def check_grid(g, m, v, tag):
    shp = m.data_shape()
    if tuple(g.data_shape) != shp:
        v("grid-stale" if tag.get("after_set") else "grid-index", "shape",
          f"{tag}: data_shape {tuple(g.data_shape)} but the current location {m.loc} gives {shp}")
        return
    size = int(np.prod(shp))
    if int(g.data_size) != size:
        v("grid-stale" if tag.get("after_set") else "grid-index", "size", f"{tag}: data_size {g.data_size}, expected {size}")
        return
    dp = np.asarray(g.data_points)
    if len(dp) != size:
        v("grid-stale" if tag.get("after_set") else "grid-index", "points", f"{tag}: {len(dp)} data points, expected {size}")
        return
    da = g.data_axes
    dim = m.dim
    for idx in np.ndindex(*shp):
        want = m.coord(idx)
        # per-axis data axes: data axis j runs along spatial axis (dim-1-j if reversed else j)
        got_axes = [None] * dim
        for j in range(dim):
            k = dim - 1 - j if g.axes_reversed else j
            got_axes[k] = float(da[j][idx[j]])
        flat = int(np.ravel_multi_index(idx, shp, order=g.order))
        got_pts = tuple(float(x) for x in dp[flat])
        if not np.allclose(got_axes, want, atol=1e-9):
            v("grid-index", "data_axes", f"{tag}: index {idx}: data_axes give {got_axes}, expected {want}")
            return
        if not np.allclose(got_pts, want, atol=1e-9):
            v("grid-index", "data_points", f"{tag}: index {idx} (flat {flat}, order {g.order}): data_points give {got_pts}, expected {want}")
            return
    pts = np.asarray(g.points)
    cells = np.asarray(g.cells)
    if cells.size and (cells.min() < 0 or cells.max() >= len(pts)):
        v("grid-cells", "range", f"{tag}: cells reference point ids outside [0, {len(pts)})")
        return
    cc = np.asarray(g.cell_centers)
    if len(cc) != len(cells):
        v("grid-centers", "count", f"{tag}: {len(cc)} cell centres for {len(cells)} cells")
        return
    nn = g.cell_node_counts
    if int(g.cell_count) != len(cells) or len(nn) != len(cells) or len(g.cell_types) != len(cells):
        v("grid-cells", "count", f"{tag}: {len(cells)} cells, but cell_count {g.cell_count}, {len(nn)} node counts, "
          f"{len(g.cell_types)} cell types")
        return
    for c in range(len(cells)):
        mean = pts[cells[c][: nn[c]]].mean(axis=0)
        if not np.allclose(mean, cc[c], atol=1e-9):
            v("grid-centers", "mean", f"{tag}: cell {c}: centre {cc[c]} but mean of its nodes {mean}")
            return
    if len(pts) != int(np.prod([len(a) for a in m.axes])):
        v("grid-index", "point_count", f"{tag}: {len(pts)} points")


def execute(sc):
    try:
        return _execute(sc)
    except Exception as e:      # noqa: BLE001
        from ..core import raised_in_finam
        if not raised_in_finam(e):
            raise
        # a public grid property of a valid grid raised inside finam
        return {"violations": [{"oracle": "grid-exception", "kind": type(e).__name__,
                                "msg": f"a public grid property / cast of a valid grid raised {type(e).__name__}: {str(e)[:200]}; "
                                       f"grid {sc['grid']}, ops {sc['ops']}"}],
                "digest": digest_of([sc, "exception"]), "nontrivial": False}


def _execute(sc):
    viol, log = [], []

    def v(oracle, kind, msg):
        viol.append({"oracle": oracle, "kind": kind, "msg": msg})

    sp = sc["grid"]
    try:
        g0 = make_grid(sp)
    except Exception as e:
        return {"violations": [{"oracle": "grid-index", "kind": "construct", "msg": f"construction failed: {e!r}"}],
                "digest": digest_of(sc), "nontrivial": False}
    members = [[g0, MGrid(sp)]]
    check_grid(g0, members[0][1], v, {"op": "construct"})
    set_after_read = False
    read = False
    for oi, op in enumerate(sc["ops"]):
        if viol:
            break
        g, m = members[op[1] % len(members)]
        tag = {"op": op[0], "n": oi}
        k = op[0]
        if k == "read_shape":
            _ = g.data_shape
            read = True
        elif k == "read_size":
            _ = g.data_size
            read = True
        elif k == "read_points":
            _ = g.data_points
            read = True
        elif k == "read_cells":
            _ = g.cells, g.cell_centers
        elif k == "read_axes":
            _ = g.data_axes
        elif k == "copy":
            members.append([g.copy(), MGrid(m.sp, loc=m.loc)])
        elif k == "deepcopy":
            members.append([g.copy(deep=True), MGrid(m.sp, loc=m.loc)])
        elif k == "set_loc":
            loc = op[2]
            valid = [str(x).split(".")[-1].lower() for x in g.valid_locations]
            try:
                g.data_location = Location.CELLS if loc == "cells" else Location.POINTS
                if loc not in valid:
                    v("grid-index", "location", f"{tag}: invalid location {loc} accepted")
                m.loc = loc
                tag["after_set"] = True
                if read:
                    set_after_read = True
            except ValueError:
                if loc in valid:
                    v("grid-index", "location", f"{tag}: valid location {loc} refused")
        elif k == "to_unstructured":
            u = g.to_unstructured()
            size = int(np.prod(m.data_shape()))
            # (the cast moves nothing: coordinates are compared to a billionth of the cell size, not relative to
            # their magnitude)
            if tuple(u.data_shape) != (size,) or not np.allclose(u.data_points, g.data_points, rtol=0, atol=1e-9) \
                    or not np.array_equal(u.cells, g.cells) or not np.allclose(u.points, g.points, rtol=0, atol=1e-9) \
                    or not np.allclose(u.cell_centers, g.cell_centers, rtol=0, atol=1e-9) or u.order != g.order \
                    or len(u.cell_types) != len(u.cells) or int(u.cell_count) != len(u.cells) \
                    or not np.array_equal(u.cell_types, g.cell_types):
                v("grid-unstructured", "cast", f"{tag}: unstructured cast does not preserve points/cells/data points")
        elif k == "cast_mutate":
            # whoever got an unstructured cast earlier may do with it what they like (here: switch its data location);
            # a later cast of the untouched grid, or of a copy of it, still reflects the grid
            held = g.to_unstructured()
            other = Location.POINTS if m.loc == "cells" else Location.CELLS
            try:
                held.data_location = other
            except ValueError:
                pass
            for src_g in (g, g.copy()):
                u = src_g.to_unstructured()
                size = int(np.prod(m.data_shape()))
                if u.data_location != g.data_location or tuple(u.data_shape) != (size,) or \
                        not np.allclose(u.data_points, g.data_points, rtol=0, atol=1e-9):
                    v("grid-unstructured", "cast-after-mutation", f"{tag}: a cast taken after an earlier cast had been "
                      f"relocated by its holder no longer reflects the grid (location {u.data_location} vs {g.data_location})")
                    break
        elif k == "cast":
            if hasattr(g, "to_uniform"):
                members.append([g.to_uniform(), MGrid(m.sp, loc=m.loc)])
            elif hasattr(g, "to_rectilinear"):
                members.append([g.to_rectilinear(), MGrid(m.sp, loc=m.loc)])
        log.append(k)
        for gg, mm in members:
            if viol:
                break
            check_grid(gg, mm, v, tag)
    m0 = members[0][1]
    flags = (m0.rev, tuple(m0.inc), m0.order)
    nontriv = set_after_read or (m0.dim >= 2 and (m0.rev or not all(m0.inc) or m0.order == "C"))
    return {"violations": viol, "digest": digest_of([sp, sc["ops"]]), "nontrivial": nontriv, "probes":
            {"set_location_after_read": int(set_after_read), "members": len(members)}, "faults": {},
            "sig": digest_of(flags), "cls": sp["type"], "sim_hours": 0,
            "outcome": {"shape": m0.data_shape(), "ops": log}}
