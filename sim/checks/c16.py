"""C16 - regridding puts the right source value at each target location."""
from .. import bootstrap  # noqa: F401
from ..core import digest_of
from ..grids import gen_structured, relayout, make_grid, MGrid
from ..world import dt

import numpy as np
from scipy.spatial import Delaunay
import finam as fm
from finam import Info, Input, Output, Mask
from finam.adapters.regrid import RegridNearest, RegridLinear
from finam.errors import FinamDataError

ID = "C16"
LEVEL = "exploration"
ENGINE = "E3"
QUICK_RUNS = 4000
THOROUGH_RUNS = 400000
QUICK_WALL = 110
THOROUGH_WALL = 900
CHUNK = 60
RULE = ("seeded pairs of source/target grids of five kinds (uniform, rectilinear, ESRI, unstructured cells, "
        "unstructured points) in 1-3 dimensions and every layout, cell or point data, seeded masks on either side "
        "(masked source values poisoned), RegridNearest and RegridLinear (unstructured or masked sources; with and "
        "without fill_with_nearest) on a REAL link over 2-3 publications with a different field each (precomputed "
        "indices are reused). Oracles: brute-force Euclidean nearest unmasked source location (ties: any), identity "
        "between layouts of one grid, affine fields reproduced to 1e-9 strictly inside the convex hull of the "
        "unmasked source locations, outside masked or nearest-filled, no poisoned value in an unmasked result, masked "
        "target cells stay masked. non-trivial = >= 4 target locations and a non-default layout or a mask; distinct = "
        "digest of the scenario")
REAL = ["RegridNearest", "RegridLinear (unstructured path)", "to_compressed/from_compressed", "Input", "Output", "grids"]
STUB = ["event driver standing in for producer and consumer"]
ASSUMPTIONS = ["coordinates from M-grid / own cell-centre arithmetic; scipy.spatial.Delaunay only for the hull test and to "
               "build valid unstructured cells", "the structured linear path cannot run with the installed scipy and is "
               "outside the property as given", "target points closer than 1e-6 to the hull boundary are skipped"]
POISON = 1.0e30


def gen_unstructured(tape, dim=2, points_only=False):
    n = tape.rng_int(5, 12)
    pts = []
    for i in range(n):
        p = [tape.rng_int(0, 40) / 4.0 for _ in range(dim)]
        if p in pts:       # never loop on the tape: a zero tape (shrinking) must terminate
            p = [p[0] + 0.125 * (i + 1)] + [x + 0.0625 * ((i * 7) % 5) for x in p[1:]]
        pts.append(p)
    if points_only:
        return {"type": "points", "points": pts}
    return {"type": "unstructured", "points": pts, "loc": tape.choice(["cells", "points"]), "order": tape.choice(["C", "F"])}


def gen_mixed_mesh(tape):
    """unstructured 2-D mesh mixing triangles and quads (the cell matrix is padded with -1 for triangles)"""
    nx, ny = tape.rng_int(2, 4), tape.rng_int(2, 3)
    pts = []
    for j in range(ny + 1):
        for i in range(nx + 1):
            pts.append([i * 1.0 + 0.125 * ((i * 3 + j) % 3), j * 1.0 + 0.125 * ((i + 2 * j) % 3)])
    cells, types = [], []
    for j in range(ny):
        for i in range(nx):
            a = j * (nx + 1) + i
            b, d, e = a + 1, a + nx + 1, a + nx + 2
            if tape.chance(1, 2):
                cells += [[a, b, e, -1], [a, e, d, -1]]
                types += [2, 2]           # CellType.TRI
            else:
                cells.append([a, b, e, d])
                types.append(3)           # CellType.QUAD
    if all(t == 3 for t in types):
        a, b, e, d = cells.pop()
        types.pop()
        cells += [[a, b, e, -1], [a, e, d, -1]]
        types += [2, 2]
    return {"type": "unstructured", "points": pts, "cells": cells, "cell_types": types, "loc": "cells",
            "order": tape.choice(["C", "F"]), "mixed": True}


def gen_crs(tape):
    """source grid in UTM 32N, target grid in web-mercator coordinates over the same region (or the other way round): the
    adapter has to bring the target locations into the source's reference system first; small and large targets"""
    from pyproj import Transformer
    utm, merc = "EPSG:32632", "EPSG:3857"
    sp = tape.choice([100.0, 250.0])
    n1, n2 = tape.rng_int(10, 20), tape.rng_int(8, 16)
    ox, oy = 500000.0 + tape.choice([0.0, 12345.5, -80000.0]), 5700000.0 + tape.choice([0.0, 4321.25, 90000.0])
    a = {"type": "uniform", "dims": [n1, n2], "order": tape.choice(["F", "C"]), "rev": tape.chance(1, 2),
         "inc": [not tape.chance(1, 3), not tape.chance(1, 3)], "loc": tape.choice(["cells", "points"]),
         "spacing": [sp, sp], "origin": [ox, oy], "crs": utm}
    tr = Transformer.from_crs(utm, merc)
    x0, y0 = tr.transform(ox, oy)
    x1, y1 = tr.transform(ox + (n1 - 1) * sp, oy + (n2 - 1) * sp)
    big = tape.chance(2, 3)
    m1, m2 = (tape.rng_int(34, 52), tape.rng_int(33, 47)) if big else (tape.rng_int(5, 24), tape.rng_int(5, 24))
    b = {"type": "uniform", "dims": [m1, m2], "order": tape.choice(["F", "C"]), "rev": tape.chance(1, 2),
         "inc": [not tape.chance(1, 3), not tape.chance(1, 3)], "loc": tape.choice(["cells", "points"]),
         "spacing": [round((x1 - x0) / (m1 - 1), 3), round((y1 - y0) / (m2 - 1), 3)], "origin": [round(x0, 3), round(y0, 3)],
         "crs": merc}
    if tape.chance(1, 4):
        a, b = b, a        # (a large source, target locations brought into web-mercator coordinates)
    if tape.chance(1, 3):
        # the same geographic system written with the other axis order: EPSG:4326 counts latitude first, OGC:CRS84
        # longitude first - the target's (lon, lat) have to be swapped before anything is compared
        la0, lo0 = 49.0 + tape.choice([0.0, 0.125, 2.5]), 8.0 + tape.choice([0.0, 0.375, -3.0])
        a.update(spacing=[0.25, 0.25], origin=[la0, lo0], crs="EPSG:4326", dims=[tape.rng_int(6, 14), tape.rng_int(6, 14)])
        b.update(spacing=[round(0.25 * (a["dims"][1] - 1) / (b["dims"][0] - 1), 6), round(0.25 * (a["dims"][0] - 1) / (b["dims"][1] - 1), 6)],
                 origin=[lo0, la0], crs="OGC:CRS84")
    return {"engine": "R", "method": "nearest", "src": a, "dst": b, "rel": "other", "smask": tape.weighted([("none", 3), ("partial", 1)]),
            "ctor_mask": False, "dmask": tape.weighted([("FLEX", 3), ("partial", 1)]), "mbits": [tape.draw(4) == 0 for _ in range(160)],
            "npub": 2, "coef": [[tape.choice([0.0, 1.0, 7.0])] + [tape.choice([1.0, -2.0, 0.5, 10.0]) for _ in range(3)]
                                for _ in range(3)], "sibling": False, "late_mask": False, "crs_pair": [a["crs"], b["crs"]]}


def generate(tape, tier="quick"):
    if tape.chance(1, 40):
        return gen_crs(tape)
    method = tape.weighted([("nearest", 5), ("linear", 3), ("linear_fill", 2)])
    if method == "nearest":
        dim = tape.weighted([(2, 5), (1, 2), (3, 2)])
    else:
        dim = 2
    def one(side):
        k = tape.weighted([("structured", 5), ("unstructured", 2), ("points", 2)])
        if dim != 2 and k != "structured":
            k = "structured" if dim != 2 else k
        if k == "structured":
            return gen_structured(tape, dim=dim, max_len=5, min_len=2, allow_degenerate=False)
        if k == "unstructured" and dim == 2 and tape.chance(1, 2):
            return gen_mixed_mesh(tape)
        return gen_unstructured(tape, dim, points_only=(k == "points"))
    src = one("src")
    if dim == 2 and src["type"] in ("uniform", "rectilinear") and tape.chance(1, 6):
        # a source with many more locations than the target (more than 256: index types chosen by the wrong count wrap)
        n1, n2 = tape.choice([(20, 16), (33, 9), (18, 18)])
        src["dims"] = [n1, n2]
        if src["type"] == "uniform":
            src["spacing"] = [0.25, 0.25]
        else:
            src["axes"] = [[src["axes"][0][0] + 0.25 * i for i in range(n1)], [src["axes"][1][0] + 0.25 * i for i in range(n2)]]
    rel = tape.weighted([("other", 6), ("relayout", 2)])
    if rel == "relayout" and src["type"] in ("uniform", "rectilinear", "esri"):
        dst = relayout(tape, src)
    else:
        dst = one("dst")
        rel = "other"
    if method != "nearest" and src["type"] in ("uniform", "rectilinear", "esri"):
        smask = "partial"       # the structured unmasked path is outside the property (scipy)
    else:
        smask = tape.weighted([("none", 5), ("partial", 4)])
    return {"engine": "R", "method": method, "src": src, "dst": dst, "rel": rel, "smask": smask,
            "ctor_mask": tape.chance(1, 4),
            "dmask": tape.weighted([("FLEX", 6), ("partial", 3)]), "mbits": [tape.draw(4) == 0 for _ in range(160)],
            "npub": tape.rng_int(2, 3), "coef": [[tape.choice([0.0, 1.0, 7.0])] + [tape.choice([1.0, -2.0, 0.5, 10.0]) for _ in range(3)]
                                                 for _ in range(3)],
            # another variable on the very same source grid object, regridded by an adapter of its own with the other
            # source mask, is coupled first (one grid object shared by several outputs is the normal case in a model)
            "sibling": tape.chance(1, 3),
            # a source with an open (flexible) mask that delivers plain arrays first and a masked array later: the
            # adapter's precomputed indices are for all source points, so it has to refuse - or to deliver the nearest
            # UNMASKED value anyway; never a value from another location
            "late_mask": tape.chance(1, 5),
            # a second consumer on the same target geometry in the other memory order, declared with the very same mask
            # array object, is coupled through an adapter of its own and served first
            "twin_target": tape.chance(1, 4),
            # a second consumer with the same target grid and mask specification reads the SAME adapter object (regridding
            # adapters may branch): both get the regridded field
            "fanout_at_adapter": tape.chance(1, 5)}


def locations(sp, G):
    """data locations in the order of the flattened data array (grid order)"""
    if sp["type"] in ("uniform", "rectilinear", "esri"):
        m = MGrid(sp)
        return m.flat_points(), m.data_shape(), m.order
    pts = np.asarray(sp["points"], dtype=float)
    if sp["type"] == "points" or sp.get("loc") == "points":
        return pts, (len(pts),), sp.get("order", "C")
    cells = sp["cells"]
    # centre = mean of the cell's REAL nodes (a padded -1 is not a node)
    cen = np.array([pts[[n for n in cell if n >= 0]].mean(axis=0) for cell in cells])
    return cen, (len(cells),), sp.get("order", "C")


def with_cells(sp):
    if sp["type"] == "unstructured" and "cells" not in sp:
        tri = Delaunay(np.asarray(sp["points"], dtype=float))
        sp = dict(sp, cells=tri.simplices.tolist(), cell_types=[int(fm.CellType.TRI)] * len(tri.simplices))
    return sp


def execute(sc):
    viol = []

    def v(oracle, kind, msg):
        viol.append({"oracle": oracle, "kind": kind, "msg": msg})

    try:
        ssp, dsp = with_cells(sc["src"]), with_cells(sc["dst"])
    except Exception:
        return {"violations": [], "digest": digest_of(sc), "nontrivial": False, "cls": "degenerate-points"}
    GS, GD = make_grid(ssp), make_grid(dsp)
    sl, sshape, sorder = locations(ssp, GS)
    dl, dshape, dorder = locations(dsp, GD)
    ns, nd = len(sl), len(dl)
    if sc.get("crs_pair"):
        # the target locations in the source's reference system (one call on whole coordinate columns)
        from pyproj import Transformer
        tx, ty = Transformer.from_crs(sc["crs_pair"][1], sc["crs_pair"][0]).transform(dl[:, 0], dl[:, 1])
        dl = np.column_stack([tx, ty])
        # (large coordinates: distances relative to a nearby origin)
        c0 = sl.mean(axis=0)
        sl, dl = sl - c0, dl - c0
    bits = sc["mbits"]
    smask_flat = np.array([bits[i % len(bits)] for i in range(ns)]) if sc["smask"] == "partial" else np.zeros(ns, bool)
    if smask_flat.all():
        smask_flat[0] = False
    structured_src = sc["src"]["type"] in ("uniform", "rectilinear", "esri")
    if structured_src and sc["method"] != "nearest" and not smask_flat.any():
        smask_flat[-1] = True      # keep RegridLinear on its unstructured path (the structured one needs another scipy)
    if ns - smask_flat.sum() < 4 and sc["method"] != "nearest":
        smask_flat[:] = False
        if sc["src"]["type"] in ("uniform", "rectilinear", "esri"):
            return {"violations": [], "digest": digest_of(sc), "nontrivial": False, "cls": "too-small"}
    dmask_flat = np.array([bits[(i + 7) % len(bits)] for i in range(nd)]) if sc["dmask"] == "partial" else np.zeros(nd, bool)
    smask = smask_flat.reshape(sshape, order=sorder)
    dmask = dmask_flat.reshape(dshape, order=dorder)
    use_smask = sc["smask"] == "partial" and smask_flat.any()
    # hull classification of the target locations (linear only)
    keep = ~smask_flat
    src_pts = sl[keep]
    inside = None
    if sc["method"] != "nearest":
        try:
            tri = Delaunay(src_pts)
            eps = 1e-6
            offs = [np.zeros(sl.shape[1])] + [s * eps * np.eye(sl.shape[1])[k] for k in range(sl.shape[1]) for s in (1, -1)]
            ins = np.array([[tri.find_simplex(p + o) >= 0 for o in offs] for p in dl])
            inside = np.where(ins.all(axis=1), 1, np.where(~ins.any(axis=1), 0, -1))    # 1 in, 0 out, -1 band
        except Exception:
            return {"violations": [], "digest": digest_of(sc), "nontrivial": False, "cls": "degenerate-hull"}
    ctor_mask = bool(sc.get("ctor_mask"))
    if ctor_mask:
        # the target mask is given to the adapter itself; without filling it has to cover everything that is not
        # strictly inside the hull of the unmasked source locations, plus the seeded extra cells
        if sc["method"] == "linear":
            dmask_flat = dmask_flat | (inside != 1)
        if dmask_flat.all():
            return {"violations": [], "digest": digest_of(sc), "nontrivial": False, "cls": "all-masked"}
        dmask = dmask_flat.reshape(dshape, order=dorder)
    if sc.get("sibling"):
        try:
            alt = np.array([bits[(i + 3) % len(bits)] for i in range(ns)]).reshape(sshape, order=sorder)
            if alt.all() or use_smask:
                alt = None                                        # main link masked: the sibling is not
            so = Output(name="sib", info=Info(time=dt(0), grid=GS, units="m", mask=alt if alt is not None else Mask.FLEX))
            si = Input(name="sibdst", info=Info(time=dt(0), grid=GD, units="m", mask=Mask.FLEX))
            so >> (RegridNearest() if sc["method"] == "nearest" else RegridLinear(fill_with_nearest=True)) >> si
            si.ping()
            si.exchange_info()
            fld = np.arange(ns, dtype=float).reshape(sshape, order=sorder)
            so.push_data(np.ma.array(fld, mask=alt, shrink=False) if alt is not None else fld, dt(0))
            si.pull_data(dt(0))
        except Exception:      # noqa: BLE001   (the sibling is not what is judged here)
            pass
    out = Output(name="src", info=Info(time=dt(0), grid=GS, units="m", mask=smask if use_smask else Mask.FLEX))
    cons_mask = Mask.FLEX if ctor_mask else (dmask if sc["dmask"] == "partial" else Mask.FLEX)
    inp = Input(name="dst", info=Info(time=dt(0), grid=GD, units="m", mask=cons_mask))
    kw = {"out_mask": dmask} if ctor_mask else {}
    if sc["method"] == "nearest":
        ad = RegridNearest(**kw)
    else:
        ad = RegridLinear(fill_with_nearest=sc["method"] == "linear_fill", **kw)
    out >> ad >> inp
    inp.ping()
    inp2 = None
    if sc.get("twin_target") and dsp["type"] in ("uniform", "rectilinear") and (ctor_mask or sc["dmask"] == "partial"):
        try:
            GD2 = make_grid(dict(dsp, order="C" if dsp["order"] == "F" else "F"))
            inp2 = Input(name="twin", info=Info(time=dt(0), grid=GD2, units="m", mask=cons_mask))
            ad2 = RegridNearest(**kw) if sc["method"] == "nearest" else \
                RegridLinear(fill_with_nearest=sc["method"] == "linear_fill", **kw)
            out >> ad2 >> inp2
            inp2.ping()
            inp2.exchange_info()
        except Exception:      # noqa: BLE001   (the twin is not what is judged here)
            inp2 = None
    inp3 = None
    if sc.get("fanout_at_adapter"):
        inp3 = Input(name="dst2", info=Info(time=dt(0), grid=GD, units="m", mask=cons_mask))
        ad >> inp3
        inp3.ping()
    try:
        inp.exchange_info()
        if inp3 is not None:
            inp3.exchange_info()
    except Exception as e:
        # target mask not covered by the interpolation domain etc. are legitimate refusals of RegridLinear
        if sc["method"] == "linear" and type(e).__name__ in ("FinamDataError", "FinamMetaDataError") and \
                sc["dmask"] == "partial" and not ctor_mask:
            # without filling, the adapter's output mask is the set of targets outside the hull; an explicit
            # target mask that differs is refused at connect (never a wrong value)
            return {"violations": [], "digest": digest_of(sc), "nontrivial": False, "cls": "linear-domain-refused"}
        if "QH" in str(e) or "Qhull" in type(e).__name__ or "qhull" in str(e).lower():
            return {"violations": [], "digest": digest_of(sc), "nontrivial": False, "cls": "degenerate-hull"}
        v("regrid-exception", type(e).__name__, f"connect failed: {type(e).__name__}: {str(e)[:300]}; {short(sc)}")
        return res(sc, viol, nd, False)
    d2 = ((dl[:, None, :] - src_pts[None, :, :]) ** 2).sum(axis=2)
    dmin = d2.min(axis=1)
    held = []        # what the consumer keeps of earlier steps: (step, the delivered array itself, a copy taken then)
    for k in range(sc["npub"]):
        coef = sc["coef"][k][: sl.shape[1] + 1]
        fs = coef[0] + sl @ np.array(coef[1:]) + 1000.0 * k
        fd = coef[0] + dl @ np.array(coef[1:]) + 1000.0 * k
        if sc["method"] == "nearest":
            # a rough (non-affine) field so that a wrong pairing cannot hide
            fs = fs + 3.0 * np.sin(np.arange(ns) * 1.7)
        data = fs.copy()
        data[smask_flat] = POISON
        arr = data.reshape(sshape, order=sorder)
        payload = np.ma.array(arr, mask=smask, shrink=False) if use_smask else arr
        late = bool(sc.get("late_mask")) and k >= 1 and not use_smask and sc["method"] == "nearest" and ns >= 3
        if late:
            lm_flat = np.array([bits[(i + 11) % len(bits)] for i in range(ns)])
            if lm_flat.all() or not lm_flat.any():
                lm_flat[:] = False
                lm_flat[0] = True
            data = fs.copy()
            data[lm_flat] = POISON
            payload = np.ma.array(data.reshape(sshape, order=sorder), mask=lm_flat.reshape(sshape, order=sorder), shrink=False)
        try:
            out.push_data(payload, dt(k))
            if inp2 is not None:
                try:
                    inp2.pull_data(dt(k))
                except Exception:      # noqa: BLE001
                    pass
            got = inp.pull_data(dt(k)).magnitude
            if inp3 is not None:
                got3 = inp3.pull_data(dt(k)).magnitude
                if got3.shape != got.shape or not np.array_equal(np.ma.getmaskarray(got3), np.ma.getmaskarray(got)) or \
                        not np.array_equal(np.ma.getdata(got3)[~np.ma.getmaskarray(got3)], np.ma.getdata(got)[~np.ma.getmaskarray(got)]):
                    v("regrid-nearest" if sc["method"] == "nearest" else "regrid-linear", "fanout",
                      f"publication {k}: two consumers of one regridding adapter received different fields; {short(sc)}")
                    break
        except FinamDataError as e:
            if late:
                break           # refused: masked data under an open source mask
            v("regrid-exception", type(e).__name__, f"publication {k}: {type(e).__name__}: {str(e)[:300]}; {short(sc)}")
            break
        except Exception as e:
            v("regrid-exception", type(e).__name__, f"publication {k}: {type(e).__name__}: {str(e)[:300]}; {short(sc)}")
            break
        # a field delivered at an earlier step stays what it was (a consumer - or a buffering adapter downstream - that
        # keeps it must not see later steps written into it)
        for (k0, ref, cp) in held:
            same_mask = np.array_equal(np.ma.getmaskarray(ref), np.ma.getmaskarray(cp))
            keepm = ~np.ma.getmaskarray(cp)
            if not same_mask or not np.array_equal(np.ma.getdata(ref)[keepm], np.ma.getdata(cp)[keepm]):
                v("regrid-nearest" if sc["method"] == "nearest" else "regrid-linear", "overwritten",
                  f"the field delivered for publication {k0} was changed when publication {k} was regridded; {short(sc)}")
                break
        if viol:
            break
        held.append((k, got, got.copy()))
        if got.shape != (1,) + tuple(dshape):
            v("regrid-shape", "shape", f"delivered shape {got.shape}, expected {(1,) + tuple(dshape)}")
            break
        gflat = np.ma.getdata(got[0]).reshape(-1, order=dorder)
        gmask = np.ma.getmaskarray(got[0]).reshape(-1, order=dorder)
        if (sc["dmask"] == "partial" or ctor_mask) and not np.array_equal(gmask | dmask_flat, gmask):
            v("regrid-target-mask", "unmasked", f"publication {k}: masked target cells came back unmasked; {short(sc)}")
            break
        leak = (~gmask) & (np.abs(gflat) > 1e20)
        if leak.any():
            v("regrid-mask-leak", "poison", f"publication {k}: a masked source value reached an unmasked target location; {short(sc)}")
            break
        fsk = fs[keep]
        d2k, dmink = d2, dmin
        if late:
            # accepted after all: then the nearest UNMASKED source of this publication counts
            fsk = fs[~lm_flat]
            d2k = ((dl[:, None, :] - sl[~lm_flat][None, :, :]) ** 2).sum(axis=2)
            dmink = d2k.min(axis=1)
        for j in range(nd):
            if gmask[j]:
                if sc["method"] == "nearest" and not dmask_flat[j]:
                    v("regrid-nearest", "masked", f"publication {k}: target location {j} masked without reason; {short(sc)}")
                    break
                if sc["method"] == "linear_fill" and not dmask_flat[j]:
                    v("regrid-linear", "masked-with-fill", f"publication {k}: target {j} masked although fill_with_nearest; {short(sc)}")
                    break
                if sc["method"] == "linear" and inside[j] == 1 and not dmask_flat[j]:
                    v("regrid-linear", "masked-inside", f"publication {k}: target {j} strictly inside the hull is masked; {short(sc)}")
                    break
                continue
            near = fsk[np.abs(d2k[j] - dmink[j]) <= (1e-12 if not sc.get("crs_pair") else 1e-6 * max(1.0, dmink[j]))]
            if sc["method"] == "nearest":
                if not np.any(np.isclose(gflat[j], near, rtol=1e-12, atol=1e-9)):
                    v("regrid-identity" if sc["rel"] == "relayout" else "regrid-nearest", "value",
                      f"publication {k}: target location {j} at {dl[j]} got {gflat[j]}, nearest source value(s) {near}; {short(sc)}")
                    break
            else:
                if inside[j] == 1:
                    if abs(gflat[j] - fd[j]) > 1e-9 * max(1.0, abs(fd[j])):
                        v("regrid-linear", "affine", f"publication {k}: affine field not reproduced at {dl[j]}: {gflat[j]} vs {fd[j]}; {short(sc)}")
                        break
                elif inside[j] == 0:
                    if sc["method"] == "linear":
                        v("regrid-linear", "outside-unmasked", f"publication {k}: target {j} outside the hull delivered {gflat[j]} unmasked; {short(sc)}")
                        break
                    if not np.any(np.isclose(gflat[j], near, rtol=1e-12, atol=1e-9)):
                        v("regrid-linear", "fill", f"publication {k}: target {j} outside the hull filled with {gflat[j]}, nearest {near}; {short(sc)}")
                        break
        if viol:
            break
    return res(sc, viol, nd, True)


def short(sc):
    def s(g):
        return {k: v for k, v in g.items() if k not in ("points", "cells", "cell_types", "axes")}
    return {"method": sc["method"], "src": s(sc["src"]), "dst": s(sc["dst"]), "smask": sc["smask"], "dmask": sc["dmask"]}


def res(sc, viol, nd, ran):
    flags = [sc["src"].get("rev"), sc["src"].get("order"), sc["dst"].get("rev"), sc["dst"].get("order")]
    nt = ran and nd >= 4 and (sc["smask"] == "partial" or sc["dmask"] == "partial" or any(f in (True, "C") for f in flags))
    cls = f"{sc['method']}:{sc['src']['type']}->{sc['dst']['type']}"
    return {"violations": viol, "digest": digest_of(sc), "nontrivial": nt,
            "probes": {"links_between_reference_systems": int(bool(sc.get("crs_pair"))),
                       "reprojected_targets_over_1024": int(bool(sc.get("crs_pair")) and nd > 1024),
                       "twin_target_requested": int(bool(sc.get("twin_target"))),
                       "two_consumers_at_one_regrid_adapter": int(bool(sc.get("fanout_at_adapter")))}, "faults": {}, "sig": cls,
            "cls": cls, "sim_hours": sc["npub"], "outcome": {"class": cls, "targets": nd}}
