"""C04 - unresolvable dependency cycles are reported; delay-resolved cycles run."""
from .. import bootstrap  # noqa: F401
from ..gen import gen_steps, gen_adapter, split_delay, PASS
from ..monitor import run_e1
from ..findings import e1_known_sig

ID = "C04"
LEVEL = "exploration"
ENGINE = "E1"
QUICK_RUNS = 6000
THOROUGH_RUNS = 400000
QUICK_WALL = 100
THOROUGH_WALL = 900
HANG_IS_VIOLATION = True
RULE = ("rings of 2-5 time-stepped stubs (optionally with pull-based stubs on ring edges), forward chords and "
        "tails; per scenario one regime: (a) no delay/dependency-breaking adapter on the ring, (a') the same with "
        "initial data depending on initial pulls, (b) combined delay >= sum of largest steps, split over 1-3 delay "
        "adapters mixed with pass-through adapters, (c) delay present but smaller than the bound, (d) dependency "
        "breaking adapter, (n) acyclic diamonds through pull-based components; non-trivial = expected outcome "
        "class reached with at least one descent or error; distinct = distinct event-log digest")
REAL = ["Composition", "Input", "Output", "CallbackOutput", "all adapters", "ConnectHelper"]
STUB = ["SimComp (time-stepped)", "SimPull (pull-based)"]
ASSUMPTIONS = [
    "a delay adapter counts only where it takes effect (not upstream of a push-based adapter)",
    "DelayToPull is counted with its guaranteed minimum: n x smallest consumer step + extra delay",
    "regime (c) (delay below the bound) accepts completion or the circular-coupling error, nothing else",
]
OWN_B = {"update-raises", "req-unmet", "extrapolating-get", "illegal-update", "req-mismatch", "update-budget",
         "lifecycle-order", "end-not-reached", "update-after-end", "adapter-finalize-count",
         "time-not-increasing"}


def generate(tape, tier="quick", force_regime=None):
    regime = tape.weighted([("b", 6), ("a", 4), ("c", 3), ("a2", 2), ("d", 1), ("n", 2), ("b2", 2)])
    if force_regime:
        regime = force_regime
    b2 = regime == "b2"      # delay-resolved ring whose initial data has to travel once around the ring in connect
    if b2:
        regime = "b"
    comps, links = [], []

    def sim(name):
        c = {"name": name, "kind": "sim", "start": 0, "steps": gen_steps(tape), "inputs": [], "outputs": []}
        if tape.chance(1, 5):
            c["start"] = tape.rng_int(1, 5)
        if tape.chance(1, 4):
            c["push_first"] = True
        comps.append(c)
        return len(comps) - 1

    def pull(name):
        comps.append({"name": name, "kind": "pull", "inputs": [], "outputs": []})
        return len(comps) - 1

    planned = []

    def link(a, b, chain, init_pull=None):
        """links are only planned here; they are created in a seeded order at the end so that the
        declaration order of a component's inputs (delayed / buffered / plain) varies"""
        planned.append((a, b, chain, init_pull))
        return len(planned) - 1

    def make_link(a, b, chain, init_pull=None):
        ca, cb = comps[a], comps[b]
        if ca["outputs"] and ca["kind"] == "sim" and tape.chance(1, 3):
            oi = tape.draw(len(ca["outputs"]))
        else:
            ca["outputs"].append({"name": f"o{len(ca['outputs'])}", "base": (a + 1) * 1000 + len(ca["outputs"]) * 100,
                                  "inc": 1})
            oi = len(ca["outputs"]) - 1
        i = {"name": f"i{len(cb['inputs'])}"}
        if cb["kind"] == "sim":
            i["initial_pull"] = tape.chance(1, 2) if init_pull is None else init_pull
        cb["inputs"].append(i)
        links.append({"src": [a, oi], "dst": [b, len(cb["inputs"]) - 1], "chain": chain})
        return len(links) - 1

    def passthrough(maxn=2, buffering_ok=True):
        ch = []
        for _ in range(tape.weighted([(0, 5), (1, 3), (2, 1)])):
            kinds = list(PASS)
            if buffering_ok and tape.chance(1, 3):
                kinds = ["next", "prev", "linear", "step"]
            ch.append(gen_adapter(tape, kinds))
        return ch[:maxn]

    if regime == "n":
        # acyclic: producer -> pull comp with two outputs -> one consumer reading both (diamond)
        a = sim("s0")
        p = pull("p0")
        c = sim("s1")
        link(a, p, passthrough(buffering_ok=True))
        if tape.chance(1, 2):
            q = pull("p1")
            link(p, q, passthrough(buffering_ok=False))
            link(q, c, passthrough(buffering_ok=False))
            link(p, c, passthrough(buffering_ok=False))
        else:
            link(p, c, passthrough(buffering_ok=False))
            link(p, c, passthrough(buffering_ok=False))
        if tape.chance(1, 2):
            link(a, c, passthrough())
        ring = []
        cyc = None
    else:
        n = tape.weighted([(2, 5), (3, 4), (4, 2), (5, 1)])
        ring = [sim(f"s{i}") for i in range(n)]
        sum_max = sum(max(comps[r]["steps"]) for r in ring)
        a2 = regime == "a2" or b2
        if regime in ("a", "a2"):
            # with different start offsets an undelayed ring may legitimately run to a near end time
            # without ever blocking; equal starts make the deadlock certain at the first update
            for r in ring:
                comps[r]["start"] = 0
        # ring edges r0->r1->...->r(n-1), closing edge r(n-1)->r0
        for i in range(n - 1):
            src, dst = ring[i], ring[i + 1]
            if tape.chance(1, 6):
                q = pull(f"p{len(comps)}")
                link(src, q, passthrough(buffering_ok=True))
                link(q, dst, passthrough(buffering_ok=False), init_pull=True if a2 else None)
            else:
                link(src, dst, passthrough(), init_pull=True if a2 else None)
        # closing edge
        chain = []
        via_pull = False
        consumer = comps[ring[0]]
        if regime in ("b", "c"):
            if regime == "b":
                total = sum_max + tape.choice([0, 0, 1, 3, 10])
            else:
                total = tape.rng_int(0, max(0, sum_max - 1))
            if tape.chance(1, 4):
                mstep = min(consumer["steps"])
                if regime == "b":
                    nn = -(-total // mstep)
                    chain = [{"kind": "delay_pull", "n": max(1, nn), "x": 0}] if nn <= 6 else \
                        [{"kind": "delay_pull", "n": 1, "x": total}]
                else:
                    chain = [{"kind": "delay_pull", "n": 1, "x": max(0, total - max(consumer["steps"]))}]
            else:
                parts = tape.weighted([(1, 3), (2, 3), (3, 2)])
                chain = [{"kind": "delay_fixed", "d": d} for d in split_delay(tape, total, parts)]
            for _ in range(tape.weighted([(0, 4), (1, 3), (2, 1)])):
                chain.insert(tape.draw(len(chain) + 1), gen_adapter(tape, PASS))
            via_pull = tape.chance(1, 4)
            if tape.chance(1, 4) and not via_pull:
                # (an averaging adapter upstream of the delays sees the clamped request for the initial time again and
                # again while more data arrives: it answers with the initial value)
                # (... as long as its source starts with the composition: a later-starting source publishes its initial
                # value twice and the repeated request is then not for the first buffered entry - finam answers "zero-
                # length interval", which C12 leaves open)
                chain.insert(0, gen_adapter(tape, ["next", "prev", "linear", "step"] +
                                            (["avg"] if comps[ring[-1]]["start"] == 0 else [])))
        elif regime == "d":
            chain = passthrough(buffering_ok=False)
            chain.insert(tape.draw(len(chain) + 1), {"kind": "delay_push"})
            if tape.chance(1, 3):
                chain.insert(0, gen_adapter(tape, ["next", "prev", "linear", "step"]))
        else:
            chain = passthrough()
        if regime in ("b", "c") and via_pull:
            # the ring is closed through a pull-based component; the delay sits downstream of it
            q = pull(f"p{len(comps)}")
            link(ring[-1], q, passthrough(buffering_ok=True))
            cl = link(q, ring[0], chain, init_pull=True if a2 else None)
        else:
            cl = link(ring[-1], ring[0], chain, init_pull=True if a2 else None)
        # forward chords (every cycle still runs through the closing edge)
        if n >= 3:
            for _ in range(tape.weighted([(0, 4), (1, 2), (2, 1)])):
                i = tape.draw(n - 2)
                j = i + 2 + tape.draw(n - i - 2) if n - i - 2 > 0 else i + 2
                if j < n:
                    link(ring[i], ring[j], passthrough(), init_pull=True if a2 else None)
        # tails
        for _ in range(tape.weighted([(0, 4), (1, 3), (2, 1)])):
            t = sim(f"s{len(comps)}")
            r = ring[tape.draw(n)]
            if tape.chance(1, 2):
                link(r, t, passthrough())
            else:
                link(t, r, passthrough(), init_pull=True if a2 else None)
        if a2:
            for r in (ring[1:] if b2 else ring):
                comps[r]["init_dep"] = True
            if b2:
                # the first ring member publishes as soon as its forcing (a tail input) arrived, while it still
                # waits for the feedback that travels around the ring
                comps[ring[0]]["_forced"] = True
        cyc = {"link": cl, "regime": regime, "need": sum_max, "initial_data_travels": b2}

    order = tape.shuffle(list(range(len(planned))))
    where = {}
    for k in order:
        where[k] = make_link(*planned[k])
    for ci, cc in enumerate(comps):
        if cc.pop("_forced", False):
            tails = [comps[ci]["inputs"][l["dst"][1]]["name"] for l in links
                     if l["dst"][0] == ci and l["src"][0] not in ring and comps[l["src"][0]]["kind"] == "sim"]
            if tails:
                for nme in tails:
                    next(i for i in cc["inputs"] if i["name"] == nme)["initial_pull"] = True
                cc["init_dep"] = tails
    if regime == "a2" and not b2:
        # a ring member learns the metadata of a forcing (tail) input only from its first ring data: the tail source
        # has its initial data ready and its info pushed, but nobody ever asks for it - the stall must still be seen
        for r in ring:
            cc = comps[r]
            ring_in = [cc["inputs"][l["dst"][1]]["name"] for l in links if l["dst"][0] == r and
                       (l["src"][0] in ring or comps[l["src"][0]]["kind"] == "pull") and cc["inputs"][l["dst"][1]].get("initial_pull")]
            for l in links:
                if l["dst"][0] == r and l["src"][0] not in ring and comps[l["src"][0]]["kind"] == "sim" and ring_in \
                        and tape.chance(1, 2):
                    i = cc["inputs"][l["dst"][1]]
                    i["info_at_init"], i["info_after"] = False, list(ring_in)
    if cyc:
        cyc["link"] = where[cyc["link"]]
    if cyc and regime == "b" and tape.chance(1, 4):
        # a monitor outside the ring reads the ring's feedback through the very same delay adapter object(s): one
        # adapter serving two consumers whose requests interleave
        base = links[cyc["link"]]
        pre = 0
        for a in base["chain"]:
            if a["kind"] in ("scale", "callback", "delay_fixed"):
                pre += 1
            else:
                break
        if pre and any(a["kind"] == "delay_fixed" for a in base["chain"][:pre]) and comps[base["src"][0]]["kind"] == "sim":
            k = pre if tape.chance(1, 2) else 1 + tape.draw(pre)
            m = sim(f"s{len(comps)}")
            comps[m]["inputs"].append({"name": "i0", "initial_pull": tape.chance(1, 2)})
            links.append({"src": list(base["src"]), "dst": [m, 0], "chain": [dict(a) for a in base["chain"][:k]],
                          "shared_with": cyc["link"], "shared_len": k})
    sims = [c for c in comps if c["kind"] == "sim"]
    t0 = min(c["start"] for c in sims)
    end = t0 + tape.choice([3, 7, 12, 20, 30])
    return {"engine": "E1", "components": comps, "links": links, "end": end,
            "start_given": tape.chance(1, 2), "cycles": [cyc] if cyc else [], "regime": regime,
            "listing": tape.shuffle(list(range(len(comps)))),
            "link_order": tape.shuffle(list(range(len(links))))}


def execute(sc):
    r = run_e1(sc, value_check=False)
    obs = r["obs"]
    regime = sc["regime"]
    viol = []
    st, ex = obs["status"], obs["exc"]

    def v(oracle, kind, msg):
        viol.append({"oracle": oracle, "kind": kind, "msg": msg, "comp": ""})

    circ = st == "exc" and ex == "FinamCircularCouplingError"
    if regime in ("a", "a2"):
        if st == "ok":
            v("cycle-not-reported", "completed", "unresolved dependency cycle, but connect()/run() returned normally")
        elif st == "budget":
            v("cycle-wrong-exception", "hang", f"unresolved cycle: no termination within budget ({obs['exc_msg']})")
        elif not circ:
            v("cycle-wrong-exception", ex, f"unresolved cycle ended with {ex}: {obs['exc_msg']}")
    elif regime in ("b", "d", "n"):
        if circ:
            v("false-cycle", regime, f"regime {regime}: circular coupling reported although every cycle is resolved: {obs['exc_msg']}")
        elif st == "budget":
            v("cycle-wrong-exception", "hang", f"regime {regime}: no termination within budget ({obs['exc_msg']})")
        elif st == "exc":
            v("cycle-wrong-exception", ex, f"regime {regime}: run ended with {ex}: {obs['exc_msg']}")
        else:
            own = OWN_B if regime != "d" else (OWN_B - {"illegal-update", "req-mismatch", "req-unmet"})
            viol.extend(x for x in r["violations"] if x["oracle"] in own)
    else:  # c
        if st == "budget":
            v("cycle-wrong-exception", "hang", f"regime c: no termination within budget ({obs['exc_msg']})")
        elif st == "exc" and not circ:
            v("cycle-wrong-exception", ex, f"regime c: run ended with {ex}: {obs['exc_msg']}")
        elif st == "ok":
            viol.extend(x for x in r["violations"] if x["oracle"] in OWN_B)
    probes = dict(r["probes"])
    probes[f"regime_{regime}_{'circular' if circ else st}"] = 1
    if circ and "initial connect" in (obs["exc_msg"] or ""):
        probes["circular_detected_in_connect"] = 1
    if circ and "initial connect" not in (obs["exc_msg"] or ""):
        probes["circular_detected_in_run"] = 1
    return {"violations": viol, "digest": r["digest"], "faults": r["faults"], "probes": probes,
            "nontrivial": circ or (st == "ok" and obs["n_updates"] >= 3),
            "sig": r["sig"], "state_sigs": r["state_sigs"], "sim_hours": r["sim_hours"],
            "cls": f"{regime}:{'circular' if circ else (st if st != 'exc' else ex)}",
            "outcome": {"regime": regime, "status": st, "exc": ex, "final_times": obs["final_times"],
                        "updates": obs["n_updates"]}}


def known_sig(sc, v):
    return e1_known_sig(sc, v)
