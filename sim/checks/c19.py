"""C19 - composition validation rejects exactly the unworkable topologies."""
from .. import bootstrap  # noqa: F401
from .. import instrument as ins
from ..core import digest_of
from ..world import dt, td, tick, make_adapter

import finam as fm
from finam import (TimeComponent, Composition, Info, NoGrid, Input, Output, CallbackInput, CallbackOutput,
                   FinamConnectError)

ID = "C19"
LEVEL = "exploration"
ENGINE = "E1"
QUICK_RUNS = 8000
THOROUGH_RUNS = 800000
QUICK_WALL = 100
THOROUGH_WALL = 900
CHUNK = 150
RULE = ("topology swarm: 2-4 components with push/pull/static outputs and pull/push/static inputs, per output a "
        "seeded tree of 0-4 adapters per path (pass-through, push-based, no-branch, delay) with fan-out at every "
        "position, dangling adapter tails, unconnected inputs, and components that are linked but left out of the "
        "composition on either side; all metadata trivially compatible. The classifier M-valid evaluates the five "
        "rejection clauses from the scenario; oracle: reject <=> FinamConnectError before any PUSH/GET event, else "
        "validation passes, and after a successful connect composition.metadata['links'] equals the created links. "
        "non-trivial = at least one adapter and (fan-out or a rejection clause); distinct = digest of the topology")
REAL = ["Composition.connect/_validate_composition/metadata", "Input", "Output", "CallbackInput", "CallbackOutput", "adapters"]
STUB = ["VComp (time-stepped stub with slots of every kind)"]
ASSUMPTIONS = ["clauses are evaluated for slots of components that are in the composition",
               "a topology that passes validation but fails later in connect() for another reason (e.g. a dangling "
               "push-based adapter) counts as 'validation passed' and is only counted, not judged"]
LEVEL_NOTE = ("configuration space only (the property quantifies over configurations); the only schedule dimension is "
              "listing / link creation order; trusted base: the classifier in this file")
AD_KINDS = {"pass": {"kind": "scale", "f": 2}, "delay": {"kind": "delay_fixed", "d": 1}, "push": {"kind": "next"},
            "push2": {"kind": "linear"}, "nobranch": {"kind": "nobranch"}, "delay_nb": {"kind": "delay_pull", "n": 1, "x": 0},
            # a dependency-breaking delay adapter: neither push-based nor no-branch, validation must look through it
            "delay_nodep": {"kind": "delay_push"}}
PUSH_BASED = {"push", "push2"}
NO_BRANCH = {"push", "push2", "nobranch", "delay_nb"}


class VComp(TimeComponent):
    def __init__(self, spec):
        super().__init__()
        self.spec = spec
        self._name = spec["name"]
        self._time = dt(0)

    def _next_time(self):
        return self.time + td(1)

    def _initialize(self):
        for o in self.spec["outputs"]:
            if o["kind"] == "pull":
                self.outputs.add(CallbackOutput(callback=lambda c, t: 1.0, name=o["name"], time=self.time,
                                                grid=NoGrid(), units=""))
            else:
                self.outputs.add(name=o["name"], time=None if o["kind"] == "static" else self.time, grid=NoGrid(),
                                 units="", static=o["kind"] == "static")
        for i in self.spec["inputs"]:
            if i["kind"] in ("push", "static_push"):
                self.inputs.add(CallbackInput(callback=lambda c, t: None, name=i["name"], time=self.time,
                                              grid=NoGrid(), units=None, static=i["kind"] == "static_push"))
            else:
                self.inputs.add(name=i["name"], time=self.time, grid=NoGrid(), units=None, static=i["kind"] == "static")
        if self.spec.get("relay"):
            self.create_connector(pull_data=[i["name"] for i in self.spec["inputs"]])
            return
        self.create_connector()

    def _connect(self, start_time):
        pd = {o["name"]: 1.0 for o in self.spec["outputs"] if o["kind"] != "pull"}
        if self.spec.get("relay"):
            # a model that computes its initial output from its initial inputs: data travels one hop per connect pass
            names = [i["name"] for i in self.spec["inputs"]]
            if not all(self.connector.in_data.get(n) is not None for n in names):
                pd = {}
            self.try_connect(start_time, push_data=pd)
            return
        self.try_connect(start_time, push_data=pd)

    def _validate(self):
        pass

    def _update(self):
        self._time = self.time + td(1)

    def _finalize(self):
        pass


def gen_tree(tape, out_kind, inputs_free, depth=0, path_len=0, force_leaf=False):
    """node := {"ad": kind|None, "children": [...]} ; leaf := {"input": [ci, ii]} | {"dangling": True}"""
    children = []
    n_child = tape.weighted([(1, 7), (2, 3), (3, 1)]) if not force_leaf else 1
    for _ in range(n_child):
        go_adapter = path_len < 4 and tape.chance(1, 2)
        if go_adapter:
            kinds = ["pass", "delay", "nobranch", "delay_nb"]
            if out_kind != "static":
                kinds += ["push", "push2", "delay_nodep"]
            k = tape.choice(kinds)
            sub = gen_tree(tape, out_kind, inputs_free, depth + 1, path_len + 1)
            children.append({"ad": k, "children": sub})
        else:
            if inputs_free and not tape.chance(1, 8):
                ci_ii = inputs_free.pop(tape.draw(len(inputs_free)))
                children.append({"input": ci_ii})
            elif path_len > 0:
                children.append({"dangling": True})
    return children


def generate(tape, tier="quick"):
    if tape.chance(1, 300):
        # a long series of components, each computing its initial output from its upstream neighbour's: a workable
        # topology that needs up to two connect passes per component (listed downstream-first); now and then with one
        # input left unconnected at the far end, which still has to be rejected before anything is exchanged
        n = tape.weighted([(20, 2), (35, 2), (52, 3), (60, 2), (71, 1)])
        comps, trees = [], []
        for ci in range(n):
            c = {"name": f"v{ci}", "outputs": [], "inputs": [], "relay": True}
            if ci < n - 1:
                c["outputs"].append({"name": "o0", "kind": "push"})
            if ci > 0:
                c["inputs"].append({"name": "i0", "kind": "pull"})
                ch = [{"input": [ci, 0]}]
                if tape.chance(1, 8):
                    ch = [{"ad": "pass", "children": ch}]
                trees.append({"src": [ci - 1, 0], "children": ch})
            comps.append(c)
        if tape.chance(1, 5):
            comps[-1]["inputs"].append({"name": "i1", "kind": "pull"})
        how = tape.draw(3)
        listing = list(range(n))
        if how == 0:
            listing.reverse()
        elif how == 2:
            listing = tape.shuffle(listing)
        return {"engine": "V", "components": comps, "trees": trees, "left_out": [], "listing": listing, "long_series": True}
    n = tape.rng_int(2, 4)
    comps = []
    for ci in range(n):
        c = {"name": f"v{ci}", "outputs": [], "inputs": []}
        for k in range(tape.weighted([(1, 5), (2, 3), (0, 2)])):
            c["outputs"].append({"name": f"o{k}", "kind": tape.weighted([("push", 5), ("pull", 3), ("static", 2)])})
        for k in range(tape.weighted([(1, 5), (2, 3), (0, 2)])):
            c["inputs"].append({"name": f"i{k}", "kind": tape.weighted([("pull", 5), ("push", 3), ("static", 2), ("static_push", 1)])})
        comps.append(c)
    free = [[ci, ii] for ci, c in enumerate(comps) for ii in range(len(c["inputs"]))]
    free = tape.shuffle(free)
    trees = []
    for ci, c in enumerate(comps):
        for oi, o in enumerate(c["outputs"]):
            if tape.chance(1, 8):
                trees.append({"src": [ci, oi], "children": []})
                continue
            trees.append({"src": [ci, oi], "children": gen_tree(tape, o["kind"], free)})
    left_out = []
    if tape.chance(1, 5):
        left_out = [tape.draw(n)]
    return {"engine": "V", "components": comps, "trees": trees, "left_out": left_out,
            "listing": tape.shuffle(list(range(n))),
            # a rejected composition is asked again (connect() or run() on the same object): the verdict has to be the same
            "retry": tape.weighted([(None, 2), ("connect", 1), ("run", 1)])}


# ------------------------------------------------------------------------ M-valid
def classify(sc):
    comps = sc["components"]
    inside = [ci for ci in range(len(comps)) if ci not in sc["left_out"]]
    reasons = set()
    fed = {}       # (ci, ii) -> (src ci, oi, [adapter kinds from output to input])
    edges = []     # links created below outputs of components that are in the composition
    all_edges = []

    def walk(src, children, path, parent_label, nobranch, nb_violation):
        for k, ch in enumerate(children):
            if "ad" in ch:
                label = f"A{src[0]}_{src[1]}_{len(all_edges)}"
                all_edges.append(1)
                if src[0] in inside:
                    edges.append((parent_label, ("adapter", label)))
                ch["_label"] = label
                nb = nobranch or ch["ad"] in NO_BRANCH
                n_targets = sum(1 for x in ch["children"] if "ad" in x or "input" in x)
                if nb and n_targets > 1 and src[0] in inside:
                    reasons.add("branching")
                walk(src, ch["children"], path + [ch["ad"]], ("adapter", label), nb, nb_violation)
            elif "input" in ch:
                ci, ii = ch["input"]
                fed[(ci, ii)] = (src[0], src[1], list(path))
                all_edges.append(1)
                if src[0] in inside:
                    edges.append((parent_label, ("input", comps[ci]["name"], comps[ci]["inputs"][ii]["name"])))

    for t in sc["trees"]:
        s = t["src"]
        walk(s, t["children"], [], ("output", comps[s[0]]["name"], comps[s[0]]["outputs"][s[1]]["name"]), False, False)
        # a fan-out directly at the output is fine (outputs are not no-branch)
    for ci in inside:
        for ii, inp in enumerate(comps[ci]["inputs"]):
            if (ci, ii) not in fed:
                reasons.add("unconnected")
                continue
            sci, soi, path = fed[(ci, ii)]
            okind = comps[sci]["outputs"][soi]["kind"]
            if inp["kind"] in ("static", "static_push") and okind != "static":
                reasons.add("static-from-nonstatic")
            if okind == "pull" and (any(a in PUSH_BASED for a in path) or inp["kind"] in ("push", "static_push")):
                reasons.add("dead-link")
            if sci not in inside:
                reasons.add("missing-upstream")
    for (ci, ii), (sci, soi, path) in fed.items():
        if sci in inside and ci not in inside:
            reasons.add("missing-downstream")
    return reasons, edges


def execute(sc):
    viol = []
    reasons, edges = classify(sc)
    comps = [VComp(c) for c in sc["components"]]
    labels = {id(c): c.name for c in comps}
    rec = ins.Recorder(labels=labels, tick_of=tick)
    ins.install(rec)
    status, exc = "ok", None
    try:
        inside = [i for i in sc["listing"] if i not in sc["left_out"]]
        composition = Composition([comps[i] for i in inside], print_log=False, log_level=50, slot_memory_location=None)
        for i in sc["left_out"]:
            comps[i].initialize()
        for ci, c in enumerate(comps):
            for n, o in c.outputs.items():
                labels[id(o)] = f"{c.name}.{n}"
        n_ad = [0]

        def build(cur, children):
            for ch in children:
                if "ad" in ch:
                    ad = make_adapter(AD_KINDS[ch["ad"]]).with_name(ch["_label"])
                    labels[id(ad)] = ch["_label"]
                    n_ad[0] += 1
                    cur >> ad
                    build(ad, ch["children"])
                elif "input" in ch:
                    ci, ii = ch["input"]
                    cur >> comps[ci].inputs[sc["components"][ci]["inputs"][ii]["name"]]
        for t in sc["trees"]:
            s = t["src"]
            build(comps[s[0]].outputs[sc["components"][s[0]]["outputs"][s[1]]["name"]], t["children"])
        try:
            composition.connect(None)
        except FinamConnectError as e:
            status, exc = "connect-error", e
        except Exception as e:
            status, exc = "other", e
        status2, exc2 = None, None
        if status == "connect-error" and sc.get("retry"):
            try:
                if sc["retry"] == "connect":
                    composition.connect(None)
                else:
                    composition.run(end_time=dt(3))
                status2 = "ok"
            except FinamConnectError as e:
                status2, exc2 = "connect-error", e
            except Exception as e:      # noqa: BLE001
                status2, exc2 = "other", e
    finally:
        ins.uninstall()
    data_before = [e for e in rec.events if e[0] in ("PUSH", "GET")]
    validated = any(e[0] == "LIFECYCLE" and e[2] == "connect" for e in rec.events) or status == "ok"
    want_reject = bool(reasons)

    def v(oracle, kind, msg):
        viol.append({"oracle": oracle, "kind": kind, "msg": msg})

    if want_reject:
        if status != "connect-error" or validated:
            v("valid-false-accept", ",".join(sorted(reasons)),
              f"topology with {sorted(reasons)} was not rejected by validation (connect ended: {status} {type(exc).__name__ if exc else ''} {exc})")
        elif data_before:
            v("valid-late", ",".join(sorted(reasons)), f"rejected only after data was exchanged: {data_before[:3]}")
        elif status2 is not None and status2 != "connect-error":
            v("valid-false-accept", "second-attempt:" + ",".join(sorted(reasons)),
              f"topology with {sorted(reasons)} was rejected by connect(), but a second {sc['retry']}() on the same "
              f"composition ended with {status2} {type(exc2).__name__ if exc2 else ''} {exc2}")
    else:
        if status == "connect-error":
            v("valid-false-reject", "none", f"workable topology rejected: {exc}")
        elif status == "ok":
            dangling = any("dangling" in x for t in sc["trees"] for x in _leaves(t["children"])) or \
                any("ad" in ch and not ch["children"] for t in sc["trees"] for ch in _nodes(t["children"]))
            try:
                md = composition.metadata["links"]
            except Exception as e:
                if not dangling:
                    v("links-metadata", type(e).__name__, f"composition.metadata raised {type(e).__name__}: {e}")
                md = None
            got = set()
            if md is None:
                md, edges = [], []
            for l in md:
                f, t = l["from"], l["to"]
                a = ("output", f["component"].split("@")[0], f["output"]) if "component" in f else ("adapter", f["adapter"].split("@")[0])
                b = ("input", t["component"].split("@")[0], t["input"]) if "component" in t else ("adapter", t["adapter"].split("@")[0])
                got.add((a, b))
            want = set(edges)
            if got != want or len(md) != len(edges):
                v("links-metadata", "set", f"reported links differ: missing {sorted(want - got)[:3]}, extra {sorted(got - want)[:3]}, "
                  f"{len(md)} entries for {len(edges)} created links")
    fan = any(len(ch.get("children", [])) > 1 for t in sc["trees"] for ch in _nodes(t["children"])) or \
        any(len(t["children"]) > 1 for t in sc["trees"])
    cls = ",".join(sorted(reasons)) if reasons else ("valid:" + status)
    return {"violations": viol, "digest": digest_of([sc["components"], sc["trees"], sc["left_out"]]),
            "nontrivial": (n_ad[0] >= 1 and (fan or bool(reasons))) or bool(sc.get("long_series")),
            "probes": {"post_validation_failure": int(not want_reject and status == "other"),
                       "rejected_compositions_asked_again": int(status2 is not None),
                       "long_series_of_relays": int(bool(sc.get("long_series")))},
            "faults": {"F7_listing_permuted": int(sc["listing"] != sorted(sc["listing"]))},
            "sig": cls, "cls": cls, "sim_hours": 0,
            "outcome": {"class": cls, "status": status, "adapters": n_ad[0], "exc": str(exc)[:200] if exc else None}}


def _nodes(children):
    for ch in children:
        if "ad" in ch:
            yield ch
            yield from _nodes(ch["children"])


def _leaves(children):
    for ch in children:
        if "ad" in ch:
            yield from _leaves(ch["children"])
        else:
            yield ch
