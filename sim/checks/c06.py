"""C06 - iterative connect converges or reports exactly the stuck components."""
from .. import bootstrap  # noqa: F401
from ..connect import run_e2

ID = "C06"
LEVEL = "exploration"
ENGINE = "E2"
QUICK_RUNS = 12000
THOROUGH_RUNS = 1500000
QUICK_WALL = 100
THOROUGH_WALL = 900
CHUNK = 200
HANG_IS_VIOLATION = True
RULE = ("2-5 components with 0-2 inputs/outputs each; per slot a seeded dependency spec: metadata known at "
        "initialisation | provided in connect | derived by a transfer rule from another slot (input->output, "
        "output->input, value); initial data constant | computed from the initially pulled inputs; initial pulls on "
        "arbitrary inputs; fan-out; producers starting later than the composition; cache on/off. Two drivers chosen "
        "by the seed: the real Composition.connect() under a seeded listing order, and a seeded scheduler calling "
        "component.connect() in arbitrary order with repetitions and only eventual fairness. Oracles: monotone "
        "fixpoint model (success vs exact stuck set), per-call status/progress flags against the public connector "
        "views, initial values, initial publication times, call budget. non-trivial = >= 2 links and (a transfer "
        "rule or computed data or a stall); distinct = digest of the call/status log")
REAL = ["ConnectHelper", "Component.connect/try_connect", "Composition._connect_components", "Input", "Output", "Info", "Scale"]
STUB = ["ConnectComp (declarative dependency spec)", "seeded connect scheduler (one of the two drivers)"]
ASSUMPTIONS = ["every component issues its ping call before the first exchange call (as the real driver does)",
               "the seeded scheduler is eventually fair: no unconnected component waits longer than a seeded window"]


def generate(tape, tier="quick"):
    if tape.chance(1, 40):
        # metadata objects shared between slots and reused for a second composition (sim/shared.py, family SH)
        from ..shared import gen_shared
        return gen_shared(tape)
    if tape.chance(1, 400):
        # a long acyclic chain: every relay derives its output's metadata from its input and its initial data from the
        # initially pulled input, so the connect phase needs about one (listed upstream-first) or two (downstream-
        # first) iterations per component - more than a hundred, all of them with progress
        n = tape.rng_int(45, 70)
        comps = [{"name": "k0", "start": 0, "inputs": [], "cache": True,
                  "outputs": [{"name": "o0", "info": "known", "data": "const", "base": 100}]}]
        links = []
        for ci in range(1, n):
            c = {"name": f"k{ci}", "start": 0, "cache": True,
                 "inputs": [{"name": "i0", "info": "known", "pull": True, "units": None}],
                 "outputs": [] if ci == n - 1 else [{"name": "o0", "info": ["from_input", "i0"], "data": "computed", "base": 0}]}
            comps.append(c)
            links.append({"src": [ci - 1, 0], "dst": [ci, 0]})
        order = tape.choice(["down", "up", "shuffle"])
        listing = list(range(n))[::-1] if order == "down" else (list(range(n)) if order == "up" else tape.shuffle(list(range(n))))
        return {"engine": "E2", "components": comps, "links": links, "driver": "real", "listing": listing,
                "link_order": tape.shuffle(list(range(len(links)))), "start_given": tape.chance(1, 2), "long_chain": True}
    n = tape.weighted([(2, 4), (3, 5), (4, 3), (5, 1)])
    comps = []
    for ci in range(n):
        c = {"name": f"k{ci}", "start": 0, "inputs": [], "outputs": [], "cache": not tape.chance(1, 4)}
        if tape.chance(1, 4):
            c["start"] = tape.rng_int(1, 4)
        for k in range(tape.weighted([(1, 5), (2, 3), (0, 2)])):
            c["inputs"].append({"name": f"i{k}", "info": "known", "pull": tape.chance(1, 2),
                                "units": tape.choice([None, "m", "km"])})
        for k in range(tape.weighted([(1, 5), (2, 3), (0, 2)])):
            c["outputs"].append({"name": f"o{k}", "info": "known", "data": "const", "base": (ci + 1) * 100 + k * 10})
        comps.append(c)
    if not any(c["outputs"] for c in comps):
        comps[0]["outputs"].append({"name": "o0", "info": "known", "data": "const", "base": 100})
    # every input needs a source in another component
    links = []
    for ci, c in enumerate(comps):
        keep = []
        for ii, i in enumerate(c["inputs"]):
            cands = [(pj, oj) for pj, p in enumerate(comps) if pj != ci for oj in range(len(p["outputs"]))]
            if not cands:
                continue
            keep.append(i)
            pj, oj = tape.choice(cands)
            ln = {"src": [pj, oj], "dst": [ci, len(keep) - 1]}
            if tape.chance(1, 5):
                ln["scale"] = 2
            if tape.chance(1, 4):
                # time adapters see the double initial push of producers that start later than the composition
                ln["chain"] = [tape.choice([{"kind": "next"}, {"kind": "linear"}, {"kind": "prev"}, {"kind": "step", "p": "1/2"},
                                            {"kind": "delay_fixed", "d": 2}, {"kind": "delay_pull", "n": 1, "x": 0}])]
                if tape.chance(1, 3):
                    ln["chain"].append(tape.choice([{"kind": "delay_fixed", "d": 1}, {"kind": "linear"}]))
                    if ln["chain"][0]["kind"] in ("delay_pull",) and ln["chain"][1]["kind"] == "delay_pull":
                        ln["chain"].pop()
            links.append(ln)
        c["inputs"] = keep
        for k, i in enumerate(c["inputs"]):
            i["name"] = f"i{k}"
    # dependency modes
    for ci, c in enumerate(comps):
        for i in c["inputs"]:
            m = tape.weighted([("known", 6), ("connect", 2), ("rule", 2), ("known+connect", 2)])
            if m == "known+connect":
                i["info"] = "known+connect"
            elif m == "rule" and c["outputs"]:
                i["info"] = ["from_output", tape.choice(c["outputs"])["name"]]
                i["units"] = None
                if tape.chance(1, 3):        # rule takes only the grid; units and time are given as values
                    # ("open": the value None - the units are then taken from the linked output)
                    i["rule_units"] = tape.choice(["m", "km", "open"])
                    i["rule_override"] = tape.chance(1, 2)     # ... or takes everything and overwrites the units
                elif tape.chance(1, 3):      # rule takes time and units as selected fields; the grid is given as a value
                    i["rule_form"] = "fields"
            elif m == "connect":
                i["info"] = "connect"
        for o in c["outputs"]:
            m = tape.weighted([("known", 6), ("connect", 2), ("rule", 3)])
            if m == "rule" and c["inputs"]:
                o["info"] = ["from_input", tape.choice(c["inputs"])["name"]]
                if tape.chance(1, 3):
                    o["rule_units"] = tape.choice(["m", "km"])
                    o["rule_override"] = tape.chance(1, 2)
                elif tape.chance(1, 3):
                    o["rule_form"] = "fields"
            elif m == "connect":
                o["info"] = "connect"
            if any(i["pull"] for i in c["inputs"]) and tape.chance(1, 3):
                o["data"] = "computed"
            kind = tape.weighted([("push", 8), ("static", 1), ("callback", 1)])
            if kind == "static" and o["info"] == "known":
                o["okind"] = "static"
            elif kind == "callback":
                o["okind"] = "callback"
                o["info"] = "known"
                o.pop("rule_units", None)
                o.pop("rule_form", None)
    # fan-out at an adapter: links of the same output share one Scale instance
    by_src = {}
    for k, ln in enumerate(links):
        by_src.setdefault(tuple(ln["src"]), []).append(k)
    for ks in by_src.values():
        if len(ks) >= 2 and tape.chance(1, 2):
            for k in ks:
                links[k]["scale"] = 2
                links[k]["scale_group"] = ks[0]
    for ln in links:
        if comps[ln["src"][0]]["outputs"][ln["src"][1]].get("okind") in ("static", "callback"):
            ln.pop("chain", None)        # time adapters need timed publications / notifications
    for c in comps:
        if tape.chance(1, 4):
            c["rules_api"] = "add"
    driver = "real" if tape.chance(1, 2) else "sched"
    sc = {"engine": "E2", "components": comps, "links": links, "driver": driver,
          "listing": tape.shuffle(list(range(n))), "link_order": tape.shuffle(list(range(len(links)))),
          "start_given": tape.chance(1, 2)}
    if driver == "sched":
        sc["ping_order"] = tape.shuffle(list(range(n)))
        sc["schedule"] = [tape.draw(n) for _ in range(tape.rng_int(4, 24))]
        sc["window"] = tape.rng_int(2, 12)
    for c in sc["components"]:
        # metadata handed to try_connect() in the first connect call only (the helper keeps what it could not exchange)
        if sum(1 for i in c["inputs"] if i["info"] == "connect") >= 1 and c.get("cache", True) and tape.chance(1, 2):
            c["ex_once"] = True
    return sc

RULE = RULE + (' A 1/40 share is family SH (sim/shared.py): 1-3 real CallbackGenerators on grids and units of their own feed the inputs of one real DebugConsumer; all inputs are declared with ONE request Info (grid unset, units unset or convertible), and the composition is built and run once or twice from the very same Info objects with different start times; oracles owned here: sh-run-raises (connect of an acyclic composition completes), sh-info.')
REAL = list(REAL) + ["CallbackGenerator, DebugConsumer built twice from shared Info objects (family SH)"]


def execute(sc):
    if sc.get("engine") == "SH":
        from ..shared import run_shared
        r = run_shared(sc)
        r["violations"] = [x for x in r["violations"] if x["oracle"] in ('sh-run-raises', 'sh-info')]
        return r
    r = run_e2(sc)
    rules = any(isinstance(s["info"], list) for c in sc["components"] for s in c["inputs"] + c["outputs"])
    comp = any(o["data"] == "computed" for c in sc["components"] for o in c["outputs"])
    return {"violations": r["violations"], "digest": r["digest"], "probes": r["probes"],
            "faults": {"F8_seeded_connect_schedule": int(sc["driver"] == "sched"),
                       "F5_late_producer": int(any(c["start"] != min(x["start"] for x in sc["components"])
                                                   for c in sc["components"])),
                       "F7_listing_permuted": int(sc["listing"] != sorted(sc["listing"]))},
            "nontrivial": len(sc["links"]) >= 2 and (rules or comp or not r["all_ok"]) and r["status"] in ("ok", "circular", "stuck"),
            "sig": r["sig"], "sim_hours": 0, "cls": f"{sc['driver']}:{r['status']}:{'acyclic' if r['all_ok'] else 'stall'}",
            "outcome": {"driver": sc["driver"], "status": r["status"], "calls": r["n_calls"], "acyclic": r["all_ok"]}}
