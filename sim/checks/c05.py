"""C05 - coupling outcome is independent of listing and linking order."""
from itertools import permutations

from .. import bootstrap  # noqa: F401
from ..core import digest_of
from ..gen import gen_e1, gen_e1_long
from ..monitor import run_e1
from ..findings import e1_known_sig, any_shared_pull, SHARED

ID = "C05"
LEVEL = "exploration"
ENGINE = "E1"
QUICK_RUNS = 3000
THOROUGH_RUNS = 100000
QUICK_WALL = 100
THOROUGH_WALL = 900
CHUNK = 25
RULE = ("scenario space of C01 without DelayToPush, producers declare units (mixed convertible units), either "
        "valid or carrying exactly one injected fault (unit conflict on one link | undelayed cycle | unconnected "
        "input); every scenario is executed under 6 seeded permutations of component listing and link creation "
        "order (thorough: all n! listings for n<=4) in fresh worlds; outcome tuples (status or exception class, "
        "slot infos, final times, full (time,value) series of every consumer input) must be pairwise equal and, "
        "without injected fault, equal the schedule-independent model prediction; non-trivial = at least two "
        "permutations produced different update orders; distinct = digest of the base run")
REAL = ["Composition", "Input", "Output", "CallbackOutput", "all adapters but DelayToPush", "ConnectHelper", "Info", "units"]
STUB = ["SimComp (time-stepped)", "SimPull (pull-based)"]
ASSUMPTIONS = [
    "domain as stated by the property: producers declare units and grids, no DelayToPush",
    "pull-based stubs declare the composition start time on their slots (a CallbackOutput without time takes it "
    "from the first requesting target, which would be an order dependence outside the stated domain)",
    "equality of exceptions is equality of the exception class",
]
UNITS = ["", "m", "km", "mm"]


def generate(tape, tier="quick"):
    if tape.chance(1, 12):
        # real SimplexNoise generators (pull-based, one process-wide noise library behind them) with different seeds,
        # optionally merged by the real WeightedSum: every consumer's series is the same under every order and equals
        # what its generator delivers alone (sim/library.py, engine N)
        from ..library import gen_noise
        return gen_noise(tape)
    if tape.chance(1, 5):
        # delay-resolved rings (also with initial data travelling around the ring during connect, and unresolved
        # rings): the outcome - success or the circular-coupling error - must not depend on the order either
        from .c04 import generate as gen_ring
        sc = gen_ring(tape, tier, force_regime=tape.choice(["b2", "b", "a2", "b2"]))
        n, m = len(sc["components"]), len(sc["links"])
        sc["fault"] = "cycle" if sc["regime"] in ("a", "a2") else None
        sc["conv"] = True           # no model comparison here (C04 judges the values' schedule)
        sc["perms"] = [[tape.shuffle(list(range(n))), tape.shuffle(list(range(m)))] for _ in range(5)]
        sc["listing"], sc["link_order"] = list(range(n)), list(range(m))
        return sc
    if tape.chance(1, 10):
        # the real WeightedSum behind generator-like pull-based sources, read by one or two consumers: sources that
        # serve any time in any order keep this inside the stated domain although the requests of consumers with
        # different steps reach the merger in an order that depends on the listing
        from .c20 import gen_wsum
        sc = gen_wsum(tape, pure=True)
        n, m = len(sc["components"]), len(sc["links"])
        sc["fault"], sc["conv"] = None, False
        sc["perms"] = [[tape.shuffle(list(range(n))), tape.shuffle(list(range(m)))] for _ in range(5)]
        sc["listing"], sc["link_order"] = list(range(n)), list(range(m))
        return sc
    if tape.chance(1, 100):
        # a long series of components, each reading its upstream neighbour while connecting: the number of connect
        # passes depends on the listing (N+1 upstream-first, 2N-1 downstream-first), the outcome must not
        sc = gen_e1_long(tape, lag=False)
        n, m = len(sc["components"]), len(sc["links"])
        sc["fault"], sc["conv"] = None, False
        sc["perms"] = [[list(range(n))[::-1], tape.shuffle(list(range(m)))], [tape.shuffle(list(range(n))), list(range(m))],
                       [tape.shuffle(list(range(n))), tape.shuffle(list(range(m)))]]
        sc["listing"], sc["link_order"] = list(range(n)), list(range(m))
        return sc
    sc = gen_e1(tape, tier, allow_delay_push=False, max_sim=4, pull_fanout=False, sorted_diamond=(2, 3), allow_adaptive=False,
                # the real library components more often than elsewhere: how often their model callback is evaluated
                # while connecting must not depend on the listing order
                real_chance=(2, 3), cb_nopull_chance=(1, 2))
    comps, links = sc["components"], sc["links"]
    if tape.chance(1, 4):
        # lockstep: every time-stepped component gets the same start and the same constant step (the smallest
        # one, so every delay stays sufficient) - components are then tied in time before each update and the
        # listing order alone decides who goes first
        ss = [c for c in comps if c["kind"] == "sim"]
        s0 = min(min(c["steps"]) for c in ss)
        for c in ss:
            c["steps"], c["start"] = [s0], 0
        sc["lockstep"] = True
    # units: producers declare, consumers either take over or ask for a convertible unit
    for c in comps:
        for o in c["outputs"]:
            if c["kind"] == "sim":
                o["units"] = tape.choice(UNITS)
    conv = False
    for ln in links:
        src = comps[ln["src"][0]]
        dst = comps[ln["dst"][0]]
        if src["kind"] != "sim" or dst["kind"] != "sim":
            continue
        u = src["outputs"][ln["src"][1]].get("units", "")
        per_time_sum = any(a["kind"] == "sum" and a.get("per_time", True) for a in ln["chain"])
        if u and not per_time_sum and tape.chance(1, 3):
            dst["inputs"][ln["dst"][1]]["units"] = tape.choice(["m", "km", "mm"])
            conv = True
    fault = tape.weighted([(None, 6), ("units", 2), ("cycle", 2), ("unconnected", 1)])
    sims = [i for i, c in enumerate(comps) if c["kind"] == "sim"]
    if fault == "units":
        cands = [ln for ln in links if comps[ln["src"][0]]["kind"] == "sim" and comps[ln["dst"][0]]["kind"] == "sim"
                 and not any(a["kind"] == "sum" for a in ln["chain"])]
        if cands:
            ln = tape.choice(cands)
            comps[ln["src"][0]]["outputs"][ln["src"][1]]["units"] = "m"
            comps[ln["dst"][0]]["inputs"][ln["dst"][1]]["units"] = "s"
        else:
            fault = None
    if fault == "cycle":
        # close an undelayed 2-cycle between two sims with equal start
        a, b = sims[0], sims[1]
        for x in (a, b):
            comps[x]["start"] = min(comps[s]["start"] for s in sims)
        for (s, d) in ((a, b), (b, a)):
            comps[s]["outputs"].append({"name": f"o{len(comps[s]['outputs'])}", "base": 9000 + s, "inc": 1})
            comps[d]["inputs"].append({"name": f"i{len(comps[d]['inputs'])}", "initial_pull": True})
            links.append({"src": [s, len(comps[s]["outputs"]) - 1], "dst": [d, len(comps[d]["inputs"]) - 1],
                          "chain": []})
    if fault == "unconnected":
        c = comps[tape.choice(sims)]
        c["inputs"].append({"name": f"i{len(c['inputs'])}", "initial_pull": False})
    if fault in ("cycle", "unconnected"):
        for c in comps:
            c.pop("impl", None)      # slots were added: the stub takes over again
    sc["fault"] = fault
    sc["conv"] = conv
    n, m = len(comps), len(links)
    perms = []
    if tier == "thorough" and n <= 4:
        for p in permutations(range(n)):
            perms.append([list(p), tape.shuffle(list(range(m)))])
    else:
        for _ in range(5):
            perms.append([tape.shuffle(list(range(n))), tape.shuffle(list(range(m)))])
    sc["listing"] = list(range(n))
    sc["link_order"] = list(range(m))
    sc["perms"] = perms
    return sc


def outcome(r):
    o = r["obs"]
    return {"status": o["status"], "exc": o["exc"], "final_times": o["final_times"] if o["status"] == "ok" else None,
            "series": {k: [(t, round(v, 9) if isinstance(v, float) else v) for (_, t, v) in s]
                       for k, s in o["series"].items()} if o["status"] == "ok" else None,
            "infos": o["infos"] if o["status"] == "ok" else None}


def execute(sc):
    if sc.get("engine") == "N":
        from ..library import run_noise
        return run_noise(sc)
    viol = []
    vc = not sc.get("conv") and not sc.get("fault")
    base = run_e1(sc, value_check=vc)
    if vc and base["obs"]["status"] == "ok":
        viol.extend(x for x in base["violations"] if x["oracle"] == "model-series-differs")
    ob = outcome(base)
    sigs = {base["sig"]}
    faults = dict(base["faults"])
    for li, (listing, lorder) in enumerate(sc["perms"]):
        sc2 = dict(sc, listing=listing, link_order=lorder)
        r = run_e1(sc2, value_check=False)
        faults["F7_permutation_executed"] = faults.get("F7_permutation_executed", 0) + 1
        sigs.add(r["sig"])
        o2 = outcome(r)
        if (o2["status"], o2["exc"]) != (ob["status"], ob["exc"]):
            viol.append({"oracle": "order-outcome-differs", "kind": "class", "comp": "",
                         "msg": f"listing {listing} links {lorder}: {o2['status']}/{o2['exc']} ({r['obs']['exc_msg']}) "
                                f"vs identity order: {ob['status']}/{ob['exc']} ({base['obs']['exc_msg']})"})
            break
        for key in ("final_times", "infos", "series"):
            if o2[key] != ob[key]:
                d = ""
                if o2[key] and ob[key]:
                    for k in sorted(set(o2[key]) | set(ob[key])):
                        if o2[key].get(k) != ob[key].get(k):
                            d = f"{k}: {o2[key].get(k)} vs {ob[key].get(k)}"
                            break
                comp = d.split(".")[0] if d else ""
                viol.append({"oracle": "order-series-differs" if key == "series" else "order-outcome-differs",
                             "kind": key, "comp": comp,
                             "msg": f"listing {listing} links {lorder}: {key} differ from identity order: {d[:400]}"})
                break
        if viol:
            break
    st = base["obs"]["status"]
    return {"violations": viol, "digest": base["digest"], "faults": faults, "probes": base["probes"],
            "nontrivial": len(sigs) > 1, "sig": digest_of(sorted(sigs)), "state_sigs": base["state_sigs"],
            "sim_hours": base["sim_hours"] * (1 + len(sc["perms"])),
            "cls": f"{sc.get('fault')}:{st if st != 'exc' else base['obs']['exc']}",
            "outcome": {"fault": sc.get("fault"), "status": st, "exc": base["obs"]["exc"],
                        "final_times": base["obs"]["final_times"], "distinct_update_orders": len(sigs)}}


def known_sig(sc, v):
    if sc.get("engine") == "N":
        # recorded finding: a generator that leaves the time of its output unset, read by the merger's input (no time
        # either) AND by a timed consumer - the first target to exchange decides between success and this error
        if sc.get("wsum") and not sc.get("declare_time", True) and "Can't set property `time`" in v.get("msg", "") and \
                v["oracle"] in ("order-outcome-differs", "lib-run-raises"):
            return "unset-time-fanout-first-target-decides"
        return None
    return e1_known_sig(sc, v)
