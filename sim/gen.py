"""Seeded scenario generators for engine E1 (shared by C01-C05, C13, C20).

A zero tape gives the smallest scenario (two components, one direct link, unit
steps), so tape shrinking converges towards it.
"""
from .model import BUFFERING, DELAYS

STEP_CHOICES = [1, 2, 3, 4, 5, 6, 7, 8, 10, 12, 1, 2, 3, 5, 25, 36]     # hours; a few steps longer than a day
PASS = ["scale", "callback"]
BUF = ["next", "prev", "linear", "step", "avg", "sum"]
STEP_POS = ["0", "1/4", "1/2", "3/4", "1"]


def gen_steps(tape):
    if tape.chance(1, 3):
        n = tape.rng_int(2, 4)
        return [tape.choice(STEP_CHOICES) for _ in range(n)]
    return [tape.choice(STEP_CHOICES)]


def gen_adapter(tape, kinds):
    k = tape.choice(kinds)
    a = {"kind": k}
    if k == "scale":
        a["f"] = tape.choice([2, 0.5, 3, -1])
    elif k == "callback":
        a["c"] = tape.choice([1, 10, -3])
    elif k == "step":
        a["p"] = tape.choice(STEP_POS)
    elif k in ("avg", "sum"):
        a["p"] = tape.choice([None] + STEP_POS)
        if k == "sum":
            a["per_time"] = not tape.chance(1, 3)
            a["init"] = tape.choice([0, 1, 5])
    elif k == "delay_fixed":
        a["d"] = tape.choice([1, 2, 3, 5, 0, 7, 13])
    elif k == "delay_pull":
        a["n"] = tape.rng_int(1, 3)
        a["x"] = tape.choice([0, 0, 1, 4])
    return a


def gen_chain(tape, *, pull_source=False, max_len=3, allow_buffering=True, allow_delay=True,
              allow_delay_push=True, delay_after_buffer_only=False, allow_integrating=True,
              delay_push_after_pull=False, delay_after_avg=False):
    """Random adapter chain (source side first)."""
    n = tape.weighted([(0, 8), (1, 7), (2, 4), (3, 2)])
    n = min(n, max_len)
    chain = []
    have_integ = False
    have_buf = False
    for _ in range(n):
        kinds = list(PASS)
        if allow_buffering and not pull_source and not have_integ:
            kinds += ["next", "prev", "linear", "step"]
            if allow_integrating:
                kinds += ["avg", "sum"]
        if allow_delay and not have_integ:
            kinds += ["delay_fixed", "delay_pull"]
            if allow_delay_push and (not pull_source or delay_push_after_pull):
                # behind a pull-based source the adapter is never notified of a publication: what it delivers is
                # unspecified, but the link still has to be servable
                kinds += ["delay_push"]
        if allow_delay and have_integ and delay_after_avg and chain and all(
                x["kind"] in ("avg", "scale", "callback", "delay_fixed", "delay_pull") for x in chain) and \
                any(x["kind"] == "avg" for x in chain):
            # an averaging adapter upstream of delay adapters: while the delayed request is clamped to the initial
            # time it is asked for that time again and again and answers with the initial value
            kinds = list(PASS) + ["delay_fixed", "delay_pull"]
        a = gen_adapter(tape, kinds)
        k = a["kind"]
        if k in ("avg", "sum"):
            have_integ = True
        if k in BUFFERING:
            have_buf = True
        chain.append(a)
    return chain


def chain_flags(chain):
    kinds = [a["kind"] for a in chain]
    fl = {"integ": any(k in ("avg", "sum") for k in kinds),
          "buf": any(k in BUFFERING for k in kinds),
          "delay": any(k in DELAYS for k in kinds),
          "delay_push": "delay_push" in kinds,
          "n_delay": sum(k in ("delay_fixed", "delay_pull") for k in kinds)}
    # a delay adapter upstream of (before) a buffering adapter
    seen_delay = False
    fl["delay_upstream_of_buffer"] = False
    for k in kinds:
        if k in DELAYS:
            seen_delay = True
        if k in BUFFERING and seen_delay:
            fl["delay_upstream_of_buffer"] = True
    return fl


def split_delay(tape, total, parts):
    """split integer delay `total` into `parts` non-negative integers summing to total"""
    cuts = sorted(tape.rng_int(0, total) for _ in range(parts - 1))
    out, prev = [], 0
    for c in cuts:
        out.append(c - prev)
        prev = c
    out.append(total - prev)
    return out


def gen_e1(tape, tier="quick", *, allow_pull=True, allow_cycles=True, allow_delay_push=True,
           allow_omission=True, allow_finish=False, allow_offsets=True, allow_faults=True,
           allow_delay=True, allow_buffering=True, allow_integrating=True, max_sim=5,
           cycle_regime=None, pull_fanout=True, cycle_chance=(1, 3), adapter_fanout=True, allow_sinks=True, allow_static=True, allow_real=True, sorted_diamond=False,
           allow_adaptive=True, real_chance=(1, 3), cb_nopull_chance=(1, 3)):
    n_sim = tape.weighted([(2, 5), (3, 6), (4, 3), (5, 2)])
    n_sim = min(n_sim, max_sim)
    n_pull = tape.weighted([(0, 6), (1, 3), (2, 1)]) if allow_pull else 0
    comps = []
    for i in range(n_sim):
        c = {"name": f"s{i}", "kind": "sim", "start": 0, "steps": [1], "inputs": [], "outputs": []}
        c["steps"] = gen_steps(tape)
        if allow_offsets and tape.chance(1, 4):
            c["start"] = tape.rng_int(1, 7)
        if tape.chance(1, 4):
            c["push_first"] = True
        if tape.chance(1, 5):
            c["cache"] = False
        comps.append(c)
    for i in range(n_pull):
        comps.append({"name": f"p{i}", "kind": "pull", "inputs": [], "outputs": []})
    # node order: first node must be a sim (a pull comp needs an upstream)
    order = tape.shuffle(list(range(len(comps))))
    if comps[order[0]]["kind"] != "sim":
        j = next(k for k, ci in enumerate(order) if comps[ci]["kind"] == "sim")
        order[0], order[j] = order[j], order[0]
    if not any(c["start"] == 0 for c in comps if c["kind"] == "sim"):
        pass  # composition start is the minimum start, whatever it is

    def new_output(ci):
        c = comps[ci]
        o = {"name": f"o{len(c['outputs'])}", "base": (ci + 1) * 1000 + len(c["outputs"]) * 100}
        if c["kind"] == "static":
            o["base"] += 0.5
        if c["kind"] == "sim":
            o["inc"] = tape.choice([1, 1, 2, 5])
            if tape.chance(1, 6):
                o["plateau"] = tape.choice([3, 4, 6])      # stretches of equal consecutive publications
        c["outputs"].append(o)
        return len(c["outputs"]) - 1

    def new_input(ci):
        c = comps[ci]
        i = {"name": f"i{len(c['inputs'])}"}
        if c["kind"] == "sim":
            i["initial_pull"] = not tape.chance(1, 4)
        c["inputs"].append(i)
        return len(c["inputs"]) - 1

    links = []
    pull_consumers = {}

    def add_link(src_ci, dst_ci, chain, share=True, same_output=None):
        c = comps[src_ci]
        dyn = [k for k, o in enumerate(c["outputs"]) if not o.get("static")]
        if same_output is not None:
            oi = same_output
        elif dyn and tape.chance(1, 2) and not (c["kind"] == "pull" and not pull_fanout):
            oi = dyn[tape.draw(len(dyn))]
        else:
            oi = new_output(src_ci)
        ii = new_input(dst_ci)
        ln = {"src": [src_ci, oi], "dst": [dst_ci, ii], "chain": chain}
        # fan-out at an adapter: share a prefix of stateless, branchable adapters with an earlier link of
        # the same output (the very same adapter instances then have two targets)
        if adapter_fanout and share and c["kind"] == "sim":
            bases = [k for k, l in enumerate(links) if l["src"] == [src_ci, oi] and "shared_with" not in l]
            if bases and tape.chance(1, 2):
                b = bases[tape.draw(len(bases))]
                pre = 0
                for a in links[b]["chain"]:
                    if a["kind"] in ("scale", "callback", "delay_fixed"):
                        pre += 1
                    else:
                        break
                if pre:
                    k = 1 + tape.draw(pre)
                    ln["chain"] = [dict(a) for a in links[b]["chain"][:k]] + chain
                    ln["shared_with"], ln["shared_len"] = b, k
        links.append(ln)
        return links[-1]

    def comp_upstream_kinds(ci, depth=0):
        kinds = set()
        for l in links:
            if l["dst"][0] == ci:
                kinds |= {a["kind"] for a in l["chain"]}
                if comps[l["src"][0]]["kind"] == "pull" and depth < 5:
                    kinds |= comp_upstream_kinds(l["src"][0], depth + 1)
        return kinds

    for pos in range(1, len(order)):
        ci = order[pos]
        c = comps[ci]
        n_in = tape.weighted([(1, 6), (2, 3), (0, 2)])
        if c["kind"] == "pull":
            n_in = max(1, n_in)
        for _ in range(n_in):
            src = order[tape.draw(pos)]
            ps = comps[src]["kind"] == "pull"
            if ps and any(l["src"][0] == src for l in links) and not (pull_fanout and tape.chance(1, 10)):
                # a pull-based component serving several consumer links is a recorded finding
                # (shared-pull-component-merges-requests); keep it rare so it does not eat the budget
                cands = [order[q] for q in range(pos) if comps[order[q]]["kind"] == "sim"]
                src = cands[tape.draw(len(cands))]
                ps = False
            # shifted (clamped, repeated) request times must not reach an integration adapter,
            # also not through a pull-based component
            integ_up = ps and bool(comp_upstream_kinds(src) & {"avg", "sum"})
            chain = gen_chain(tape, pull_source=ps, allow_delay_push=allow_delay_push,
                              allow_delay=allow_delay and not integ_up, allow_buffering=allow_buffering,
                              allow_integrating=allow_integrating,
                              delay_push_after_pull=ps and not (comp_upstream_kinds(src) & {"avg", "sum", "delay_pull"}),
                              # (the source has to start with the composition: a later start means two initial
                              # publications, and the repeated request is then not for the first buffered entry)
                              delay_after_avg=comps[src]["kind"] == "sim" and comps[src]["start"] == 0)
            add_link(src, ci, chain)

    # static sources: one publication valid for every time, read by static or ordinary inputs
    if allow_static and tape.chance(1, 5):
        comps.append({"name": f"t{len(comps)}", "kind": "static", "inputs": [], "outputs": []})
        k = len(comps) - 1
        users = [i for i, c in enumerate(comps) if c["kind"] in ("sim", "pull")]
        for _ in range(tape.weighted([(1, 3), (2, 2)])):
            dst = users[tape.draw(len(users))]
            ch = [gen_adapter(tape, PASS) for _ in range(tape.weighted([(0, 3), (1, 1)]))]
            ln = add_link(k, dst, ch, share=False)
            if comps[dst]["kind"] == "sim":
                comps[dst]["inputs"][ln["dst"][1]]["static"] = tape.chance(1, 2)

    # a static output owned by a time-stepped component, next to its dynamic ones
    if allow_static and tape.chance(1, 6):
        sims_pos = [p for p in range(len(order) - 1) if comps[order[p]]["kind"] == "sim" and "impl" not in comps[order[p]]]
        if sims_pos:
            p = sims_pos[tape.draw(len(sims_pos))]
            k = order[p]
            users = [order[q] for q in range(p + 1, len(order)) if comps[order[q]]["kind"] in ("sim", "pull")]
            if users:
                oi = new_output(k)
                comps[k]["outputs"][oi]["static"] = True
                for _ in range(tape.weighted([(1, 3), (2, 1)])):
                    dst = users[tape.draw(len(users))]
                    ch = [gen_adapter(tape, PASS) for _ in range(tape.weighted([(0, 3), (1, 1)]))]
                    ln = add_link(k, dst, ch, share=False, same_output=oi)
                    if comps[dst]["kind"] == "sim":
                        comps[dst]["inputs"][ln["dst"][1]]["static"] = tape.chance(1, 2)

    # push-based sinks: components without time step whose inputs pull on every notification
    if allow_sinks and tape.chance(1, 5):
        comps.append({"name": f"k{len(comps)}", "kind": "sink", "inputs": [], "outputs": []})
        k = len(comps) - 1
        sims_now = [i for i, c in enumerate(comps) if c["kind"] == "sim"]
        for _ in range(tape.weighted([(1, 3), (2, 1)])):
            src = sims_now[tape.draw(len(sims_now))]
            ch = gen_chain(tape, max_len=2, allow_delay_push=False, allow_integrating=False,
                           allow_delay=allow_delay, allow_buffering=allow_buffering)
            ch = [a for a in ch if a["kind"] != "delay_pull"]
            add_link(src, k, ch, share=False)

    # diamond through a pull-based component: one consumer reads it twice with different chains
    if allow_pull and n_pull and pull_fanout and tape.chance(1, 5):
        pulls_pos = [p for p in range(len(order)) if comps[order[p]]["kind"] == "pull"]
        qp = pulls_pos[tape.draw(len(pulls_pos))]
        later = [order[p] for p in range(qp + 1, len(order)) if comps[order[p]]["kind"] == "sim"]
        if later and not (comp_upstream_kinds(order[qp]) & {"avg", "sum", "delay_pull"}):
            cons = later[tape.draw(len(later))]
            for _ in range(2):
                ch = []
                if tape.chance(1, 2) and allow_delay:
                    ch.append({"kind": "delay_fixed", "d": tape.choice([1, 2, 3, 5, 8])})
                if tape.chance(1, 3):
                    ch.insert(tape.draw(len(ch) + 1), gen_adapter(tape, PASS))
                add_link(order[qp], cons, ch)

    # monotone diamond: a consumer reads one pull-based component twice, the more delayed link first, the delays
    # no further apart than the consumer's smallest step - the merged request stream then never goes backwards, so
    # this stays outside the recorded finding even where shared pull-based components are otherwise left out
    if allow_pull and n_pull and sorted_diamond and tape.chance(*sorted_diamond):
        cands = [k for k, l in enumerate(links)
                 if comps[l["src"][0]]["kind"] == "pull" and comps[l["dst"][0]]["kind"] == "sim"
                 and all(a["kind"] in PASS or a["kind"] == "delay_fixed" for a in l["chain"])
                 and "shared_with" not in l
                 and sum(1 for m in links if m["src"][0] == l["src"][0]) == 1
                 and not (comp_upstream_kinds(l["src"][0]) & {"avg", "sum", "delay_pull"})]
        if cands:
            l0 = links[cands[tape.draw(len(cands))]]
            d0 = sum(a["d"] for a in l0["chain"] if a["kind"] == "delay_fixed")
            if d0 == 0 and allow_delay and tape.chance(2, 3):
                d0 = tape.choice(comps[l0["dst"][0]]["steps"] + [1, 2])
                l0["chain"].insert(tape.draw(len(l0["chain"]) + 1), {"kind": "delay_fixed", "d": d0})
            hi = min(d0, min(comps[l0["dst"][0]]["steps"]))
            kk = (1 + tape.draw(hi)) if hi and tape.chance(3, 4) else tape.draw(hi + 1)
            d1 = d0 - kk
            ch = [{"kind": "delay_fixed", "d": d1}] if d1 > 0 else []
            if tape.chance(1, 3):
                ch.insert(tape.draw(len(ch) + 1), gen_adapter(tape, PASS))
            add_link(l0["src"][0], l0["dst"][0], ch, share=False,
                     same_output=l0["src"][1] if tape.chance(1, 2) else None)

    # cycles: back edges carrying a delay
    max_steps = sum(max(c["steps"]) for c in comps if c["kind"] == "sim")
    cycles = []
    if allow_cycles and tape.chance(*cycle_chance):
        sims_pos = [p for p in range(len(order)) if comps[order[p]]["kind"] == "sim"]
        if len(sims_pos) >= 2:
            a = tape.draw(len(sims_pos) - 1)
            b = a + 1 + tape.draw(len(sims_pos) - 1 - a)
            early, late = order[sims_pos[a]], order[sims_pos[b]]
            regime = cycle_regime or "b"
            need = max_steps
            chain = []
            if regime == "b":
                total = need + tape.choice([0, 0, 1, 5])
                if tape.chance(1, 4):
                    # delay to pull: n previous requests of the consumer
                    mstep = min(comps[early]["steps"])
                    n = -(-total // mstep)
                    if n <= 6:
                        chain = [{"kind": "delay_pull", "n": max(1, n), "x": 0}]
                    else:
                        chain = [{"kind": "delay_pull", "n": 1, "x": total}]
                else:
                    parts = tape.weighted([(1, 3), (2, 3), (3, 2)])
                    chain = [{"kind": "delay_fixed", "d": d} for d in split_delay(tape, total, parts)]
                # mix with pass-through adapters
                for _ in range(tape.weighted([(0, 4), (1, 3), (2, 1)])):
                    chain.insert(tape.draw(len(chain) + 1), gen_adapter(tape, PASS))
                # a buffering adapter may sit upstream of all delays
                if allow_buffering and tape.chance(1, 4):
                    chain.insert(0, gen_adapter(tape, ["next", "prev", "linear", "step"]))
            ln = add_link(late, early, chain, share=False)
            comps[early]["inputs"][ln["dst"][1]]["initial_pull"] = tape.chance(1, 2)
            cycles.append({"link": len(links) - 1, "regime": regime, "need": need})

    # a static field derived from a producer's initial state by a component without time step: it pulls the producer
    # once while connecting; whoever reads the static output does not depend on the producer's progress
    if allow_static and tape.chance(1, 6):
        prods = [i for i, c in enumerate(comps) if c["kind"] == "sim" and not c["inputs"]]
        if prods:
            a = prods[tape.draw(len(prods))]
            users = [i for i, c in enumerate(comps) if c["kind"] == "sim" and i != a]
            if users:
                comps.append({"name": f"t{len(comps)}", "kind": "static", "inputs": [], "outputs": []})
                k = len(comps) - 1
                add_link(a, k, [gen_adapter(tape, PASS) for _ in range(tape.weighted([(0, 3), (1, 1)]))], share=False)
                for _ in range(tape.weighted([(1, 3), (2, 1)])):
                    dst = users[tape.draw(len(users))]
                    ch = [gen_adapter(tape, PASS) for _ in range(tape.weighted([(0, 3), (1, 1)]))]
                    ln = add_link(k, dst, ch, share=False)
                    comps[dst]["inputs"][ln["dst"][1]]["static"] = tape.chance(1, 3)

    def upstream_kinds(ci, ii, depth=0):
        """adapter kinds on the link into (ci, ii) and, through pull comps, further upstream"""
        li = next(k for k, l in enumerate(links) if l["dst"] == [ci, ii])
        kinds = {a["kind"] for a in links[li]["chain"]}
        s = links[li]["src"][0]
        if comps[s]["kind"] == "pull" and depth < 5:
            for jj in range(len(comps[s]["inputs"])):
                kinds |= upstream_kinds(s, jj, depth + 1)
        return kinds

    # faults on sims
    for ci, c in enumerate(comps):
        if c["kind"] != "sim":
            continue
        for ii, i in enumerate(c["inputs"]):
            li = next(k for k, l in enumerate(links) if l["dst"] == [ci, ii])
            uk = upstream_kinds(ci, ii)
            fl = {"integ": bool(uk & {"avg", "sum"})}
            has_dp = "delay_pull" in uk
            # a second pull in one update moves a delay-to-pull adapter to a time the driver never
            # checked, and integration adapters refuse empty intervals: no duplicates there
            if allow_faults and not fl["integ"] and not has_dp and tape.chance(1, 6):
                i["dup"] = sorted({tape.rng_int(0, 12) for _ in range(tape.rng_int(1, 3))})
            if allow_faults and tape.chance(1, 8):
                i["skip"] = sorted({tape.rng_int(0, 12) for _ in range(tape.rng_int(1, 3))})
        for o in c["outputs"]:
            if allow_omission and tape.chance(1, 6):
                ks = set()
                for _ in range(tape.rng_int(1, 3)):
                    k0 = tape.rng_int(1, 14)
                    for j in range(tape.rng_int(1, 3)):
                        ks.add(k0 + j)
                o["nopush"] = sorted(ks)
        if allow_finish and not c["outputs"] and tape.chance(1, 4):
            c["finish_at"] = tape.rng_int(1, 6)
        if not c["inputs"] and tape.chance(1, 3):
            c["next_none"] = True

    # a producer that stays silent for r steps behaves like one with an (r+1) times larger step:
    # top up the delay of regime-b cycles accordingly
    for cy in cycles:
        if cy["regime"] != "b":
            continue
        need2 = 0
        for c in comps:
            if c["kind"] != "sim":
                continue
            run = 0
            for o in c["outputs"]:
                ks = sorted(o.get("nopush", ()))
                cur = best = 0
                prev = None
                for k in ks:
                    cur = cur + 1 if prev is not None and k == prev + 1 else 1
                    best = max(best, cur)
                    prev = k
                run = max(run, best)
            need2 += max(c["steps"]) * (1 + run)
        extra = need2 - cy["need"]
        if extra > 0:
            ch = links[cy["link"]]["chain"]
            for a in ch:
                if a["kind"] == "delay_fixed":
                    a["d"] += extra
                    break
                if a["kind"] == "delay_pull":
                    a["x"] = a.get("x", 0) + extra
                    break
            cy["need"] = need2

    # adaptive stepping: a leaf consumer with a push-based "alarm" input; a notification at one of the chosen times
    # switches the length of the step it is about to do while it waits (its time is unchanged, its announced next
    # time is not) - what the driver is told and what is then requested still have to agree
    if allow_adaptive and tape.chance(1, 8):
        leaves = [i for i, c in enumerate(comps) if c["kind"] == "sim" and not c["outputs"] and c["inputs"]
                  and c.get("finish_at") is None]
        srcs = [i for i, c in enumerate(comps) if c["kind"] == "sim" and c["outputs"]]
        if leaves and srcs:
            ci = leaves[tape.draw(len(leaves))]
            src = srcs[tape.draw(len(srcs))]
            if src != ci:
                ln = add_link(src, ci, [], share=False)
                ai = comps[ci]["inputs"][ln["dst"][1]]
                ai["alarm"], ai["initial_pull"] = True, False
                t, ticks = comps[src]["start"], []
                for k in range(14):
                    t += comps[src]["steps"][k % len(comps[src]["steps"])]
                    ticks.append(t)
                comps[ci]["adaptive"] = {"alt": tape.choice([1, 2, 3, 5]),
                                         "at": sorted({ticks[tape.draw(len(ticks))] for _ in range(tape.rng_int(1, 4))})}

    # usage variants: metadata handed over in connect instead of at initialisation, outputs nobody reads
    for c in comps:
        if c["kind"] != "sim":
            continue
        for i in c["inputs"]:
            if not i.get("static") and tape.chance(1, 6):
                i["info_at_init"] = False
        for o in c["outputs"]:
            if tape.chance(1, 6):
                o["info_at_init"] = False
        if tape.chance(1, 6):
            c["outputs"].append({"name": f"o{len(c['outputs'])}", "base": 90000 + len(c["outputs"]), "inc": 1,
                                 "unlinked": True})

    # real library components in place of stubs where the scenario allows it
    if allow_real:
        for ci, c in enumerate(comps):
            if c["kind"] != "sim" or len(c["steps"]) != 1 or c.get("push_first") or c.get("next_none") or \
                    c.get("finish_at") is not None or c.get("cache") is False or c.get("adaptive"):
                continue
            if any(o.get("nopush") or o.get("static") or o.get("info_at_init") is False for o in c["outputs"]) or \
                    any(i.get("dup") or i.get("skip") or i.get("static") or i.get("info_at_init") is False
                        for i in c["inputs"]):
                continue
            if not tape.chance(*real_chance):
                continue
            if c["inputs"] and c["outputs"]:
                if cycles:
                    continue          # CallbackComponent computes its initial output from its initial pulls
                impl = "cbcomp"
            elif c["outputs"]:
                impl = "cbgen"
            elif c["inputs"]:
                impl = "dbgcons"
            else:
                continue
            for i in c["inputs"]:
                i["initial_pull"] = True
            c["impl"] = impl
            if impl == "cbcomp" and tape.chance(*cb_nopull_chance):
                # the documented variant without initial pulls: the model is evaluated once, without inputs, while
                # connecting
                c["cb_initial_pull"] = False
                for i in c["inputs"]:
                    i["initial_pull"] = False

    t0 = min(c["start"] for c in comps if c["kind"] == "sim")
    # now and then a long run (hundreds of updates: counters, caches and buffers that only go wrong late)
    span = tape.weighted([(3, 6), (7, 6), (12, 6), (20, 6), (24, 6), (36, 6), (48, 6), (400, 1)])
    end = t0 + span
    sc = {"engine": "E1", "components": comps, "links": links, "end": end,
          "start_given": tape.chance(1, 2), "cycles": cycles, "run_only": tape.chance(1, 2),
          "listing": tape.shuffle(list(range(len(comps)))),
          "link_order": tape.shuffle(list(range(len(links))))}
    # forms of the public API used to build the same composition: bit 0 - slots described by Info objects instead of
    # keywords, bit 1 - comp["slot"] / .chain() instead of comp.outputs["slot"] / >>, bit 2 - adapter constructor
    # arguments in the other documented form (positional <-> keyword)
    sc["api"] = tape.draw(8)
    return sc


def update_budget(sc):
    """analytic bound on the number of updates of a terminating run (x4)"""
    sims = [c for c in sc["components"] if c["kind"] == "sim"]
    t0 = min(c["start"] for c in sims)
    horizon = sc["end"] - t0 + sum(max(c["steps"]) for c in sims)
    # omissions force producers further; delays only reduce
    extra = 0
    for c in sims:
        for o in c["outputs"]:
            extra = max(extra, len(o.get("nopush", ())) + 1)
    tot = 0
    for c in sims:
        tot += -(-(horizon + extra * max(c["steps"])) // min(c["steps"] + ([c["adaptive"]["alt"]] if c.get("adaptive") else []))) + 2
    return 4 * tot + 20


def gen_e1_long(tape, *, lag=True):
    """Rare large compositions (counters, caps and caches that only go wrong late or in large set-ups):

    chain - a series of 14..70 time-stepped components, each reading its upstream neighbour (initial pull while
            connecting), listed downstream-first, upstream-first or shuffled: the connect phase needs up to 2N passes
    lag   - an hourly producer read by a slow consumer through a delay of 130..260 hours (and by a prompt one): more than a
            hundred publications are held back in the producer's output
    """
    comps, links = [], []
    if not lag or tape.chance(1, 2):
        n = tape.weighted([(14, 2), (18, 2), (27, 2), (40, 1), (53, 3), (64, 2), (70, 1)])
        step = tape.choice([1, 2, 3])
        for k in range(n):
            c = {"name": f"s{k}", "kind": "sim", "start": 0, "steps": [step], "inputs": [], "outputs": []}
            if k > 0:
                c["inputs"].append({"name": "i0", "initial_pull": True})
                ch = [gen_adapter(tape, PASS)] if tape.chance(1, 6) else []
                links.append({"src": [k - 1, 0], "dst": [k, 0], "chain": ch})
            if k < n - 1:
                c["outputs"].append({"name": "o0", "base": (k + 1) * 1000, "inc": 1})
            if 0 < k < n - 1:
                # the real CallbackComponent computes its initial output from its initial pulls: data travels one hop
                # per connect pass
                c["impl"] = "cbcomp"
            comps.append(c)
        how = tape.draw(3)
        listing = list(range(n))
        if how == 0:
            listing.reverse()
        elif how == 2:
            listing = tape.shuffle(listing)
        span = tape.choice([2, 3, 4]) * step
    else:
        d = tape.rng_int(130, 260)
        s_slow = tape.choice([12, 24, 25, 36])
        comps.append({"name": "s0", "kind": "sim", "start": 0, "steps": [1], "inputs": [],
                      "outputs": [{"name": "o0", "base": 1000, "inc": 1}]})
        comps.append({"name": "s1", "kind": "sim", "start": 0, "steps": [s_slow],
                      "inputs": [{"name": "i0", "initial_pull": tape.chance(1, 2)}], "outputs": []})
        parts = split_delay(tape, d, tape.weighted([(1, 3), (2, 1)]))
        ch = [{"kind": "delay_fixed", "d": x} for x in parts]
        if tape.chance(1, 3):
            ch = [{"kind": "delay_pull", "n": 1, "x": d}]
        if tape.chance(1, 3):
            ch.insert(tape.draw(len(ch) + 1), gen_adapter(tape, PASS))
        links.append({"src": [0, 0], "dst": [1, 0], "chain": ch})
        marathon = tape.chance(1, 2)          # far more than a thousand updates in one run
        if marathon or tape.chance(1, 2):
            comps.append({"name": "s2", "kind": "sim", "start": 0, "steps": [1 if marathon else tape.choice([1, 2, 5])],
                          "inputs": [{"name": "i0", "initial_pull": True}], "outputs": []})
            links.append({"src": [0, 0], "dst": [2, 0], "chain": []})
        listing = tape.shuffle(list(range(len(comps))))
        # (now and then far more than a thousand updates in one run)
        span = d + tape.rng_int(30, 90) + (400 if marathon else 0)
    sc = {"engine": "E1", "components": comps, "links": links, "end": span,
          "start_given": tape.chance(1, 2), "cycles": [], "run_only": tape.chance(1, 2),
          "listing": listing, "link_order": tape.shuffle(list(range(len(links)))), "long": True}
    sc["api"] = tape.draw(8)
    return sc
