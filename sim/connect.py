"""Engine E2: connect-protocol simulator.

Components carry a declarative dependency spec per slot; the reference model
(M-connect) is the monotone least fixpoint of the connect facts.  Two drivers:
the real Composition.connect() and a seeded scheduler that calls
component.connect() itself in an arbitrary, only eventually fair order.
"""
import re

from . import bootstrap  # noqa: F401
from . import instrument as ins
from .core import digest_of, BudgetExceeded
from .world import dt, td, tick, mag, make_adapter

import finam as fm
from finam import TimeComponent, Composition, Info, NoGrid, ComponentStatus, FinamCircularCouplingError
from finam.adapters.base import Scale
from finam.tools import FromInput, FromOutput, FromValue

OK_STATES = (ComponentStatus.CONNECTING, ComponentStatus.CONNECTING_IDLE, ComponentStatus.CONNECTED)


class ConnectComp(TimeComponent):
    """spec: {"name", "start", "cache", "inputs": [{"name","info": "known"|"connect"|["from_output", o], "pull": bool}],
              "outputs": [{"name","info": "known"|"connect"|["from_input", i], "data": "const"|"computed", "base"}]}"""

    def __init__(self, spec):
        super().__init__()
        self.spec = spec
        self._name = spec["name"]
        self._time = dt(spec["start"])

    def _next_time(self):
        return self.time + td(1)

    def _info(self, units="m"):
        return Info(time=self.time, grid=NoGrid(), units=units)

    def _initialize(self):
        s = self.spec
        in_rules, out_rules = {}, {}
        for i in s["inputs"]:
            if i["info"] in ("known", "known+connect"):
                self.inputs.add(name=i["name"], time=self.time, grid=NoGrid(), units=i.get("units"))
            else:
                self.inputs.add(name=i["name"])
                if isinstance(i["info"], list):
                    if i.get("rule_units") and i.get("rule_override"):
                        # everything is taken over first; later rules overwrite single fields
                        in_rules[i["name"]] = [FromOutput(i["info"][1]), FromValue("time", self.time),
                                               FromValue("units", None if i["rule_units"] == "open" else i["rule_units"])]
                    elif i.get("rule_units"):
                        in_rules[i["name"]] = [FromOutput(i["info"][1], ["grid"]), FromValue("time", self.time),
                                               FromValue("units", None if i["rule_units"] == "open" else i["rule_units"])]
                    elif i.get("rule_form") == "fields":
                        in_rules[i["name"]] = [FromOutput(i["info"][1], ["time", "units"]), FromValue("grid", NoGrid()),
                                               FromValue("time", self.time)]
                    else:
                        in_rules[i["name"]] = [FromOutput(i["info"][1]), FromValue("time", self.time)]
        for o in s["outputs"]:
            if o.get("okind") == "callback":
                # pull-based output: no initial publication, the provider answers once the component is through
                self.outputs.add(fm.CallbackOutput(callback=lambda caller, t, o=o: self._provide(o), name=o["name"],
                                                   time=self.time, grid=NoGrid(), units="m"))
            elif o["info"] == "known":
                self.outputs.add(name=o["name"], time=self.time, grid=NoGrid(), units="m",
                                 static=o.get("okind") == "static")
            else:
                self.outputs.add(name=o["name"])
                if isinstance(o["info"], list):
                    if o.get("rule_units") and o.get("rule_override"):
                        out_rules[o["name"]] = [FromInput(o["info"][1]), FromValue("time", self.time),
                                                FromValue("units", o["rule_units"])]
                    elif o.get("rule_units"):
                        out_rules[o["name"]] = [FromInput(o["info"][1], ["grid"]), FromValue("time", self.time),
                                                FromValue("units", o["rule_units"])]
                    elif o.get("rule_form") == "fields":
                        out_rules[o["name"]] = [FromInput(o["info"][1], ["time", "units"]), FromValue("grid", NoGrid()),
                                                FromValue("time", self.time)]
                    else:
                        out_rules[o["name"]] = [FromInput(o["info"][1]), FromValue("time", self.time)]
        if s.get("rules_api") == "add":
            # the same rules handed over one by one after the connector exists
            self.create_connector(pull_data=[i["name"] for i in s["inputs"] if i["pull"]], cache=s.get("cache", True))
            for name, rules in in_rules.items():
                for r in rules:
                    self.connector.add_in_info_rule(name, r)
            for name, rules in out_rules.items():
                for r in rules:
                    self.connector.add_out_info_rule(name, r)
        else:
            self.create_connector(pull_data=[i["name"] for i in s["inputs"] if i["pull"]],
                                  in_info_rules=in_rules, out_info_rules=out_rules, cache=s.get("cache", True))

    def _provide(self, o):
        if o["data"] == "computed" and not self.connector.all_data_pulled:
            return None          # "no data yet"
        return self.out_value(o)

    def out_value(self, o):
        v = float(o["base"])
        if o["data"] == "computed":
            v += sum(mag(d) for d in self.connector.in_data.values())
        return v

    def _connect(self, start_time):
        s = self.spec
        # "known+connect": the input was created with its metadata and the component hands the same metadata to
        # try_connect again (redundant but supported: the helper then exchanges the input's own info)
        ex = {i["name"]: Info(time=self.time, grid=NoGrid(), units=i.get("units")) for i in s["inputs"]
              if i["info"] in ("connect", "known+connect")}
        self._n_connect = getattr(self, "_n_connect", 0) + 1
        if s.get("ex_once") and self._n_connect > 1:
            # "it is sufficient to provide only infos that became newly available": everything was handed over in the
            # first call, the helper keeps what it could not exchange yet
            ex = {}
        pi = {o["name"]: self._info() for o in s["outputs"] if o["info"] == "connect"}
        pd = {}
        for o in s["outputs"]:
            if o.get("okind") == "callback":
                continue
            if o["data"] == "const" or self.connector.all_data_pulled:
                pd[o["name"]] = self.out_value(o)
        self.try_connect(start_time, exchange_infos=ex, push_infos=pi, push_data=pd)

    def _validate(self):
        pass

    def _update(self):
        self._time = self.time + td(1)

    def _finalize(self):
        pass


# --------------------------------------------------------------------------- model
def m_connect(sc):
    """least fixpoint of the connect facts.  Returns (connected set, facts)"""
    comps = sc["components"]
    links = sc["links"]             # {"src": [ci, oi], "dst": [ci, ii]}
    feed = {tuple(l["dst"]): tuple(l["src"]) for l in links}
    targets = {}
    for l in links:
        targets.setdefault(tuple(l["src"]), []).append(tuple(l["dst"]))
    facts = set()
    changed = True

    def has(*f):
        return f in facts

    def add(*f):
        nonlocal changed
        if f not in facts:
            facts.add(f)
            changed = True

    while changed:
        changed = False
        for ci, c in enumerate(comps):
            for oi, o in enumerate(c["outputs"]):
                # an info was pushed to the output
                if o["info"] in ("known", "connect"):
                    add("out_info", ci, oi)
                else:
                    ii = next(k for k, i in enumerate(c["inputs"]) if i["name"] == o["info"][1])
                    if has("in_exch", ci, ii):
                        add("out_info", ci, oi)
                tg = targets.get((ci, oi), [])
                if has("out_info", ci, oi) and all(has("in_exch", *t) for t in tg):
                    add("out_exch", ci, oi)
                data_av = o["data"] == "const" or all(has("pulled", ci, k) for k, i in enumerate(c["inputs"]) if i["pull"])
                if o.get("okind") == "callback":
                    add("pushed_done", ci, oi)          # nothing to publish for a pull-based output
                    if has("out_exch", ci, oi) and data_av:
                        add("pushed", ci, oi)           # = its provider can answer
                elif has("out_exch", ci, oi) and data_av:
                    add("pushed", ci, oi)
                    add("pushed_done", ci, oi)
            for ii, i in enumerate(c["inputs"]):
                if i["info"] in ("known", "connect", "known+connect"):
                    add("in_info", ci, ii)
                else:
                    oi = next(k for k, o in enumerate(c["outputs"]) if o["name"] == i["info"][1])
                    if has("out_exch", ci, oi):
                        add("in_info", ci, ii)
                src = feed[(ci, ii)]
                if has("in_info", ci, ii) and has("out_info", *src):
                    add("in_exch", ci, ii)
                if i["pull"] and has("in_exch", ci, ii) and has("pushed", *src) and has("out_exch", *src):
                    add("pulled", ci, ii)
    connected = set()
    for ci, c in enumerate(comps):
        ok = all(has("in_exch", ci, ii) and (not i["pull"] or has("pulled", ci, ii)) for ii, i in enumerate(c["inputs"])) \
            and all(has("out_exch", ci, oi) and has("pushed_done", ci, oi) for oi, o in enumerate(c["outputs"]))
        if ok:
            connected.add(ci)
    return connected, facts


def expected_values(sc):
    """initial value of every output and of every initial pull (None if it can never be computed), with the
    units each slot ends up with (transfer rules copy units along with the rest of the metadata)"""
    comps = sc["components"]
    feed = {tuple(l["dst"]): (tuple(l["src"]), l.get("scale")) for l in sc["links"]}
    memo = {}
    F = {"m": 1.0, "km": 1000.0}

    def out_units(ci, oi, depth=0):
        o = comps[ci]["outputs"][oi]
        if o.get("rule_units"):
            return o["rule_units"]
        if isinstance(o["info"], list) and depth < 30:
            ii = next(k for k, i in enumerate(comps[ci]["inputs"]) if i["name"] == o["info"][1])
            return in_units(ci, ii, depth + 1)
        return "m"

    def in_units(ci, ii, depth=0):
        i = comps[ci]["inputs"][ii]
        if i.get("rule_units") == "open":
            # FromValue("units", None): the rule leaves the units open - they are the linked output's
            (sci, soi), _ = feed[(ci, ii)]
            return out_units(sci, soi, depth + 1) if depth < 30 else "m"
        if i.get("rule_units"):
            return i["rule_units"]
        if isinstance(i["info"], list) and depth < 30:
            oi = next(k for k, o in enumerate(comps[ci]["outputs"]) if o["name"] == i["info"][1])
            return out_units(ci, oi, depth + 1)
        if i.get("units"):
            return i["units"]
        (sci, soi), _ = feed[(ci, ii)]
        return out_units(sci, soi, depth + 1) if depth < 30 else "m"

    def val(ci, oi, depth=0):
        if (ci, oi) in memo:
            return memo[(ci, oi)]
        if depth > 50:
            return None
        c = comps[ci]
        o = c["outputs"][oi]
        v = float(o["base"])
        if o["data"] == "computed":
            for ii, i in enumerate(c["inputs"]):
                if i["pull"]:
                    p = pulled(ci, ii, depth + 1)
                    if p is None:
                        return None
                    v += p
        memo[(ci, oi)] = v
        return v

    def pulled(ci, ii, depth=0):
        (sci, soi), sc_f = feed[(ci, ii)]
        v = val(sci, soi, depth)
        if v is None:
            return None
        if sc_f:
            v *= sc_f
        return v * F[out_units(sci, soi)] / F[in_units(ci, ii)]
    return val, pulled


def state_view(comp):
    """public exchange state of a component"""
    c = comp.connector
    return (tuple(v is not None for v in c.in_infos.values()), tuple(v is not None for v in c.out_infos.values()),
            tuple(v is not None for v in c.in_data.values()), tuple(c.infos_pushed.values()),
            tuple(c.data_pushed.values()))


def complete(view):
    return all(all(x) for x in view)


# --------------------------------------------------------------------------- runner
def run_e2(sc):
    comps_spec = sc["components"]
    viol, probes = [], {}

    def v(oracle, kind, msg, **kw):
        viol.append(dict({"oracle": oracle, "kind": kind, "msg": msg}, **kw))

    def probe(k, n=1):
        probes[k] = probes.get(k, 0) + n

    comps = [ConnectComp(c) for c in comps_spec]
    labels = {id(c): c.name for c in comps}
    n_items = sum(len(c["inputs"]) + len(c["outputs"]) for c in comps_spec)
    budget = 4 * (n_items + len(comps)) + 8
    if sc["driver"] != "real":
        budget *= sc["window"] + 3       # an unfair schedule may call one component many times in a row
    rec = ins.Recorder(labels=labels, tick_of=tick, max_connects=budget)
    ins.install(rec)
    t0 = min(c["start"] for c in comps_spec)
    status, exc = "ok", None
    calls = []
    try:
        composition = Composition([comps[i] for i in sc["listing"]], print_log=False, log_level=50,
                                  slot_memory_location=None)
        for c in comps:
            for n, o in c.outputs.items():
                labels[id(o)] = f"{c.name}.{n}"
        shared_scales = {}
        for l in sc["link_order"]:
            ln = sc["links"][l]
            src = comps[ln["src"][0]].outputs[comps_spec[ln["src"][0]]["outputs"][ln["src"][1]]["name"]]
            dst = comps[ln["dst"][0]].inputs[comps_spec[ln["dst"][0]]["inputs"][ln["dst"][1]]["name"]]
            cur = src
            if ln.get("scale"):
                # links of one output may share the very same Scale instance (fan-out at a pull-based adapter)
                grp = ln.get("scale_group", l)
                if grp in shared_scales:
                    cur = shared_scales[grp]
                else:
                    cur = cur >> Scale(float(ln["scale"]))
                    shared_scales[grp] = cur
            for a in ln.get("chain", []):
                cur = cur >> make_adapter(a)     # value preserving at the initial time (both initial pushes carry v0)
            cur >> dst

        # per-call oracle through the life-cycle hook of the recorder ------------------
        orig_ev = rec.ev
        before = {}

        def ev_hook(*a):
            orig_ev(*a)
            if a[0] == "LIFECYCLE" and a[2] == "connect":
                comp = next(c for c in comps if c.name == a[1])
                before[a[1]] = (comp.status, state_view(comp) if comp.connector is not None else None)
            elif a[0] == "LIFECYCLE_DONE" and a[2] == "connect":
                comp = next(c for c in comps if c.name == a[1])
                st0, view0 = before.pop(a[1])
                st1, view1 = comp.status, state_view(comp)
                calls.append((a[1], st1.name))
                if st1 not in OK_STATES:
                    v("connect-flag", "state", f"{a[1]}: status {st1.name} after a connect call")
                    return
                # a component sees the exchanged metadata of one of its outputs only after EVERY consumer linked to
                # that output has completed its own exchange (judged by the consumers' own public views)
                ci_ = next(k for k, c in enumerate(comps) if c.name == a[1])
                for oi_, o_ in enumerate(comps_spec[ci_]["outputs"]):
                    if comp.connector.out_infos.get(o_["name"]) is None:
                        continue
                    for ln_ in sc["links"]:
                        if ln_["src"] == [ci_, oi_]:
                            cons = comps[ln_["dst"][0]]
                            iname = comps_spec[ln_["dst"][0]]["inputs"][ln_["dst"][1]]["name"]
                            if cons.connector is None or cons.connector.in_infos.get(iname) is None:
                                v("connected-incomplete", "out-info-early", f"{a[1]} already sees the exchanged metadata of its "
                                  f"output {o_['name']} although consumer {cons.name}.{iname} has not exchanged yet")
                                return
                if st0 == ComponentStatus.INITIALIZED:
                    return        # the ping call
                if st1 == ComponentStatus.CONNECTED and not complete(view1):
                    v("connected-incomplete", "early", f"{a[1]} reported CONNECTED with outstanding exchanges {view1}")
                elif st1 != ComponentStatus.CONNECTED and complete(view1):
                    v("connect-flag", "complete-not-reported", f"{a[1]}: everything exchanged but status {st1.name}")
                elif st1 == ComponentStatus.CONNECTING and view0 == view1:
                    v("connect-flag", "progress-without-change", f"{a[1]} reported progress but nothing new was exchanged")
                elif st1 == ComponentStatus.CONNECTING_IDLE and view0 != view1:
                    v("connect-flag", "idle-with-change", f"{a[1]} reported no progress although {view0} -> {view1}")
        rec.ev = ev_hook

        start = dt(t0)
        if sc["driver"] == "real":
            composition.connect(start if sc.get("start_given") else None)
        else:
            # seeded scheduler: ping calls first (every input must have pinged before the exchange starts)
            composition._collect_adapters()
            composition._validate_composition()
            for i in sc["ping_order"]:
                comps[i].connect(start)
            k = 0
            idle = set()
            sched = sc["schedule"]
            n = len(comps)
            last_called = {i: 0 for i in range(n)}
            step = 0
            while True:
                un = [i for i in range(n) if comps[i].status != ComponentStatus.CONNECTED]
                if not un:
                    break
                step += 1
                # eventually fair: a component starved for more than `window` calls goes first
                starving = [i for i in un if step - last_called[i] > sc["window"]]
                if starving:
                    i = min(starving, key=lambda j: (last_called[j], j))      # the one waiting longest
                    probe("fairness_forced")
                else:
                    i = un[sched[k % len(sched)] % len(un)]
                    k += 1
                last_called[i] = step
                view0 = state_view(comps[i])
                comps[i].connect(start)
                if state_view(comps[i]) == view0 and comps[i].status != ComponentStatus.CONNECTED:
                    idle.add(i)
                else:
                    idle.clear()
                # stuck: every unconnected component was called without effect since the last progress
                if all(j in idle for j in range(n) if comps[j].status != ComponentStatus.CONNECTED) and idle:
                    status = "stuck"
                    break
    except FinamCircularCouplingError as e:
        status, exc = "circular", e
    except BudgetExceeded as e:
        status, exc = "budget", e
    except Exception as e:
        status, exc = "exc", e
    finally:
        ins.uninstall()

    want_conn, facts = m_connect(sc)
    all_ok = len(want_conn) == len(comps)
    names = [c["name"] for c in comps_spec]
    if status == "budget":
        v("connect-budget", "budget", f"connect did not terminate within {budget} calls per component: {exc}")
    elif status == "exc":
        v("connect-exception", type(exc).__name__, f"connect raised {type(exc).__name__}: {exc}")
    elif all_ok:
        if status != "ok":
            v("connect-stuck-set", "false-stall", f"dependencies are acyclic but connect ended with {status}: {exc}")
        else:
            val, pulled = expected_values(sc)
            for ci, comp in enumerate(comps):
                if comp.status != ComponentStatus.CONNECTED and sc["driver"] != "real":
                    v("connected-incomplete", "not-connected", f"{comp.name} is {comp.status.name} after convergence")
                if sc["driver"] == "real" and comp.status != ComponentStatus.VALIDATED:
                    v("connected-incomplete", "not-validated", f"{comp.name} is {comp.status.name} after connect()")
                view = state_view(comp)
                if not complete(view):
                    v("connected-incomplete", "views", f"{comp.name}: outstanding exchanges after successful connect {view}")
                for ii, i in enumerate(comps_spec[ci]["inputs"]):
                    if i["pull"]:
                        got = comp.connector.in_data[i["name"]]
                        want = pulled(ci, ii)
                        if got is None or want is None or abs(mag(got) - want) > 1e-9 * max(1, abs(want)):
                            v("initial-value", "value", f"{comp.name}.{i['name']}: initial pull {None if got is None else mag(got)}, producer's initial value {want}")
                # both ends of every link agree on the metadata (C07 rides along here: components with info
                # transfer rules exist only in this engine)
                for ln in sc["links"]:
                    if ln["dst"][0] != ci:
                        continue
                    ispec = comps_spec[ci]["inputs"][ln["dst"][1]]
                    ospec = comps_spec[ln["src"][0]]["outputs"][ln["src"][1]]
                    try:
                        ii_ = comp.inputs[ispec["name"]].info
                        oi_ = comps[ln["src"][0]].outputs[ospec["name"]].info
                    except Exception as e:      # noqa: BLE001
                        v("meta-unset-field", "no-info", f"{comp.name}.{ispec['name']}: no metadata after a successful connect ({e})")
                        continue
                    if ii_.time is None or ii_.grid is None or ii_.units is None:
                        v("meta-unset-field", "input", f"{comp.name}.{ispec['name']}: unset field after connect: {ii_}")
                        continue
                    from finam.data.tools import compatible_units, equivalent_units
                    want_u = None
                    if isinstance(ispec["info"], list):
                        want_u = ispec.get("rule_units")
                        if want_u == "open":
                            want_u = oi_.units         # left open by the rule: the delivered units
                    elif ispec["info"] in ("known", "known+connect"):
                        want_u = ispec.get("units") or oi_.units
                    if not compatible_units(oi_.units, ii_.units):
                        v("meta-units", "not-convertible", f"{comp.name}.{ispec['name']}: units {ii_.units} after connect are not "
                          f"convertible from the delivered {oi_.units}")
                    elif want_u is not None and not equivalent_units(ii_.units, want_u):
                        v("meta-units", "changed", f"{comp.name}.{ispec['name']}: units {ii_.units} after connect, the input "
                          f"asked for / was to take over {want_u}")
                for oi, o in enumerate(comps_spec[ci]["outputs"]):
                    pubs = [e[2] for e in rec.events if e[0] == "PUSH" and e[1] == f"{comp.name}.{o['name']}"]
                    has_t = any(l["src"] == [ci, oi] for l in sc["links"]) and o.get("okind") != "callback"
                    want_p = ([t0] if comps_spec[ci]["start"] == t0 else [t0, comps_spec[ci]["start"]]) if has_t else None
                    if has_t and o.get("okind") == "static":
                        want_p = [None]
                    if has_t and pubs != want_p:
                        v("initial-publications", "times", f"{comp.name}.{o['name']}: initial publications at {pubs}, expected {want_p}")
                    if want_p and len(want_p) == 2:
                        probe("double_initial_push")
    else:
        stuck = sorted(names[i] for i in range(len(comps)) if i not in want_conn)
        if status == "ok":
            v("connect-stuck-set", "not-reported", f"components {stuck} can never complete, but connect succeeded")
        elif status == "circular":
            m = re.search(r"Unconnected components: \[(.*)\]", str(exc))
            got = sorted(x.strip() for x in m.group(1).split(",") if x.strip()) if m else None
            if got != stuck:
                v("connect-stuck-set", "set", f"circular-coupling error lists {got}, stuck components are {stuck}")
            probe("stall_reported")
        elif status == "stuck":
            got = sorted(c.name for c in comps if c.status != ComponentStatus.CONNECTED)
            if got != stuck:
                v("connect-stuck-set", "set-sched", f"seeded scheduler: unconnected {got}, model says {stuck}")
            probe("stall_reported")
    log = [e for e in rec.events if e[0] in ("PUSH", "LIFECYCLE_DONE")]
    return {"violations": viol, "probes": probes, "digest": digest_of([calls, status, [str(x) for x in log]]),
            "status": status, "calls": calls, "all_ok": all_ok,
            "n_calls": len(calls), "sig": digest_of(calls)}
