"""Run an E1 scenario under all scheduler monitors and return observations plus
the violations of every oracle (each check module reports the ones it owns).
"""
from . import bootstrap  # noqa: F401
from .core import digest_of, HarnessError
from .model import E1Model, ModelRefuse, Unknown, any_close, BUFFERING
from .world import World, tick, SimComp, SimPull, SimSink
from .gen import update_budget, chain_flags
from .findings import consumers_of, upstream_pull_comps
from .model import F


def _up_kinds(sc, ci, depth=0):
    kinds = set()
    for l in sc["links"]:
        if l.get("dst") and l["dst"][0] == ci:
            kinds |= {a["kind"] for a in l["chain"]}
            if sc["components"][l["src"][0]]["kind"] in ("pull", "wsum") and depth < 5:
                kinds |= _up_kinds(sc, l["src"][0], depth + 1)
    return kinds

from finam import ComponentStatus


def run_e1(sc, scratch=None, value_check=True):
    sc = dict(sc)
    sc.setdefault("max_updates", update_budget(sc))
    sc.setdefault("max_connects", 8 * (len(sc["components"]) + sum(
        len(c["inputs"]) + len(c["outputs"]) for c in sc["components"])) + 20)
    model = E1Model(sc)
    world = World(sc, scratch=scratch)
    viol = []
    probes = {}

    def probe(k, n=1):
        probes[k] = probes.get(k, 0) + n

    def v(oracle, kind, msg, **kw):
        viol.append(dict({"oracle": oracle, "kind": kind, "msg": msg}, **kw))

    if any(c["kind"] == "static" and c["inputs"] for c in sc["components"]):
        probe("derived_static_component")
    if any(c["kind"] == "sim" and any(o.get("static") for o in c["outputs"]) for c in sc["components"]):
        probe("static_output_of_time_component")
    world.build()
    rec = world.rec
    comps = world.comps
    cidx = {c["name"]: i for i, c in enumerate(sc["components"])}
    sims = [i for i, c in enumerate(sc["components"]) if c["kind"] == "sim"
            and i not in sc.get("left_out", ())]
    end = sc["end"]
    t0 = min(sc["components"][i]["start"] for i in sims) if sims else None
    pending = {}          # predictions of the update in progress
    sched_sig = []
    state_sigs = set()
    series = {}           # (comp, input) -> [(k, tick, value)]

    def out_time(ci, oi):
        o = comps[ci].outputs[sc["components"][ci]["outputs"][oi]["name"]]
        return tick(o.time) if o.time is not None else None

    # DelayToPush: "now" is the moment of the pull; the model is evaluated right after it, before anything else
    # is published
    model.newest_cb = out_time

    def lacks(ci):
        """owners (sim indices) of outputs that lack data for ci's announced pull"""
        comp = comps[ci]
        nt = comp.next_time
        if nt is None:
            return set(), {}
        t = tick(nt)
        need = {}
        owners = set()
        for ii in range(len(sc["components"][ci]["inputs"])):
            try:
                req = model.required(ci, ii, t)
            except Unknown:
                continue
            for (sci, soi, tr) in req:
                need.setdefault((sci, soi), []).append(tr)
                ot = out_time(sci, soi)
                if ot is None or ot < tr:
                    owners.add(sci)
        return owners, need

    def on_update_enter(comp):
        ci = cidx[comp.name]
        times = {i: tick(comps[i].time) for i in sims}
        snap = {"times": [times[i] for i in sims]}
        sched_sig.append(ci)
        # abstract scheduler state: sorted lags (capped) + who lacks
        mn = min(times.values())
        # ---------------- C01 predicted: required data is there
        owners, need = lacks(ci)
        t = tick(comp.next_time) if comp.next_time is not None else None
        for (sci, soi), trs in need.items():
            ot = out_time(sci, soi)
            for tr in trs:
                if ot is None or ot < tr:
                    v("req-unmet", "c01", comp=comp.name, msg=
                      f"update of {comp.name} (next pull {t}): needs {sc['components'][sci]['name']}."
                      f"o{soi} at {tr}, newest publication {ot}")
        if owners:
            probe("update_with_lacking_upstream_should_not_happen")
        # ---------------- C02: legal choice
        R = [i for i in sims if times[i] == mn]
        reach, todo = set(R), list(R)
        lag_edges = 0
        while todo:
            x = todo.pop()
            ow, _ = lacks(x)
            for y in ow:
                lag_edges += 1
                if y not in reach:
                    reach.add(y)
                    todo.append(y)
        if ci not in reach:
            v("illegal-update", "c02", comp=comp.name, msg=
              f"{comp.name} updated at times={times} although it is neither least advanced "
              f"nor lacking upstream of the least advanced (legal: {[sc['components'][i]['name'] for i in sorted(reach)]})")
        if ci not in R:
            probe("update_descended_into_upstream")
        if len(R) > 1:
            probe("tie_between_least_advanced")
        state_sigs.add(digest_of([sorted(min(int(times[i] - mn), 40) for i in sims), lag_edges > 0,
                                  len(R)]))
        # ---------------- C03: no update once everything reached the end
        if end > t0 and all(times[i] >= end for i in sims):
            v("update-after-end", "c03", f"{comp.name} updated with all times {times} >= end {end}")
        # predictions for the request-time check (C02 second half / C13)
        pending.clear()
        pending["comp"] = ci
        pred = {}
        for ii, inp in enumerate(sc["components"][ci]["inputs"]):
            _collect_pred(ci, ii, t, pred)
        for key in [k for k in pred if k[1].split(".")[0] in pending.get("unpred", ())]:
            del pred[key]
        pending["pred"] = pred
        pending["ev_start"] = len(rec.events)
        return snap

    def _mark_unpredictable(sci, depth=0):
        """a pull-based component asked through a link whose request time is not determined by the link definition
        (buffering adapter, delay-to-push): the requests it forwards to its own inputs are not predictable either"""
        if sc["components"][sci]["kind"] not in ("pull", "wsum") or depth > 6:
            return
        pending.setdefault("unpred", set()).add(sc["components"][sci]["name"])
        for l2 in sc["links"]:
            if l2.get("dst") and l2["dst"][0] == sci:
                _mark_unpredictable(l2["src"][0], depth + 1)

    def _collect_pred(ci, ii, t, pred, depth=0):
        """(source output label, registering input label) -> acceptable request ticks"""
        if t is None or depth > 6:
            return
        li = model.links.get((ci, ii))
        if li is None:
            return
        ln = sc["links"][li]
        fl = chain_flags(ln["chain"])
        if fl["buf"] or fl["delay_push"]:
            _mark_unpredictable(ln["src"][0])
            return
        try:
            tr = model.lm[li].required_source_time(t)
        except Unknown:
            _mark_unpredictable(ln["src"][0])
            return
        sci, soi = ln["src"]
        src = sc["components"][sci]
        if src["outputs"][soi].get("static"):
            return          # a static output is asked for no particular time
        dst_lab = f"{sc['components'][ci]['name']}.{sc['components'][ci]['inputs'][ii]['name']}"
        src_lab = f"{src['name']}.{src['outputs'][soi]['name']}"
        pred.setdefault((src_lab, dst_lab), set()).add(tr)
        if src["kind"] in ("pull", "wsum"):
            for jj in range(len(src["inputs"])):
                _collect_pred(sci, jj, tr, pred, depth + 1)

    harness = []

    def guard(fn):
        def g(*a, **k):
            try:
                return fn(*a, **k)
            except Exception as e:        # a bug in the monitor/model must never look like finam failing
                import traceback
                if not harness:
                    harness.append("".join(traceback.format_exception(type(e), e, e.__traceback__))[-2500:])
                return None
        return g

    rec.on_update_enter = guard(on_update_enter)

    # online value check ------------------------------------------------------
    def check_value(ci, ii, k, t, val, initial=False):
        series.setdefault((ci, ii), []).append((k, t, val))
        if sc["components"][ci]["kind"] in ("pull", "wsum") and not initial:
            return      # evaluated as part of the downstream consumer's expectation
        try:
            alts = model.expect(ci, ii, t, initial=initial)
        except Unknown:
            probe("value_unspecified")
            return
        except ModelRefuse as e:
            if not value_check:
                return
            v("model-series-differs", "refuse", comp=sc["components"][ci]["name"], msg=
              f"{sc['components'][ci]['name']}.i{ii} pull at {t} delivered {val} but the ideal link refuses ({e})")
            return
        if len(alts) > 1:
            probe("tie_midpoint")
        if not value_check:
            return          # the model was still fed (its request histories must stay in step)
        if not isinstance(val, float) or not any_close(val, alts):
            v("model-series-differs", "value", comp=sc["components"][ci]["name"], msg=
              f"{sc['components'][ci]['name']}.i{ii} pull #{k} at {t}: got {val}, ideal link gives {alts}")

    # patch pull recording of stubs: compare online, in actual request order
    for ci, comp in enumerate(comps):
        if isinstance(comp, (SimComp, SimPull, SimSink)) or isinstance(getattr(comp, "pulls", None), dict):
            for ii, i in enumerate(sc["components"][ci]["inputs"]):
                if i["name"] not in comp.pulls:
                    continue
                lst = _Hooked(guard(lambda item, ci=ci, ii=ii: check_value(
                    ci, ii, item[0], item[1], item[2], initial=item[0] == "init")))
                comp.pulls[i["name"]] = lst

    # request-time check after each update --------------------------------------
    def after_update(lab):
        pred = pending.get("pred") or {}
        seen = set()
        for e in rec.events[pending.get("ev_start", 0):]:
            if e[0] != "GET":
                continue
            _, slab, tk, tlab, cur, newest, phase = e
            key = (slab, tlab)
            if key in pred and key not in seen:
                seen.add(key)
                probe("request_time_compared")
                if tk not in pred[key]:
                    v("req-mismatch", "c02", comp=lab, msg=
                      f"during update of {lab}: {slab} was asked for {tk} by {tlab}; the link definition gives {sorted(pred[key])}")
            if newest is not None and tk is not None and tk > newest and cur is not None:
                # a request beyond the newest publication of a component-owned output
                pass
        pending.clear()

    status, exc = None, None
    orig_ev = rec.ev

    def ev_hook(*a):
        orig_ev(*a)
        if a[0] == "UPDATE_EXIT":
            guard(after_update)(a[1])
    rec.ev = ev_hook

    status, exc = world.run()
    if harness:
        raise HarnessError("exception inside a monitor hook:\n" + harness[0])

    # ---------------------------------------------------------------- post-run oracles
    ename = type(exc).__name__ if exc is not None else None
    if status == "budget":
        v("update-budget", "c03", f"no termination within deterministic budget: {exc}")
    if rec.update_exc is not None:
        lab, en, msg = rec.update_exc
        if en in ("FinamTimeError", "FinamNoDataError"):
            v("update-raises", en, f"pull during update of {lab} failed: {en}: {msg}", comp=lab)
        elif status == "exc":
            v("update-raises-other", en, f"update of {lab} raised {en}: {msg}", comp=lab)
    # extrapolation / out-of-range GETs during updates on component-owned outputs
    for e in rec.events:
        if e[0] == "GET" and e[4] is not None and e[5] is not None and e[2] is not None and e[2] > e[5]:
            if e[1].split(".")[0] in cidx and sc["components"][cidx[e[1].split(".")[0]]]["kind"] == "sim":
                v("extrapolating-get", "c01", comp=e[4], msg=f"{e[1]} asked for {e[2]} beyond newest publication {e[5]} during update of {e[4]}")
                break

    life = {}
    for e in rec.events:
        if e[0] == "LIFECYCLE":
            life.setdefault(e[1], []).append(e[2][0])      # i c v f
        elif e[0] == "UPDATE_ENTER":
            life.setdefault(e[1], []).append("u")
    import re
    gram = re.compile(r"^ic+vu*f$")
    if status == "ok":
        for ci, c in enumerate(sc["components"]):
            if ci in sc.get("left_out", ()):
                continue
            s = "".join(life.get(c["name"], []))
            if not gram.match(s):
                v("lifecycle-order", "c03", f"{c['name']}: call history {s!r} does not match initialize connect+ validate update* finalize")
            if comps[ci].status != ComponentStatus.FINALIZED:
                v("lifecycle-order", "status", f"{c['name']} ends in {comps[ci].status}")
            if isinstance(comps[ci], (SimComp, SimPull, SimSink)) or type(comps[ci]).__name__ == "SimStatic":
                nh = sum(1 for e in rec.events if e[0] == "HOOK" and e[1] == c["name"] and e[2] == "finalize")
                if nh != 1:
                    v("lifecycle-order", "finalize-hook", f"{c['name']}: its _finalize hook ran {nh} times (status {comps[ci].status.name})")
        for i in sims:
            c = sc["components"][i]
            finished = c.get("finish_at") is not None and getattr(comps[i], "k", 0) >= c["finish_at"]
            if tick(comps[i].time) < end and not finished:
                v("end-not-reached", "c03", f"{c['name']} ends at {tick(comps[i].time)} < end {end}")
        cnt = {}
        for e in rec.events:
            if e[0] == "ADAPTER_FINALIZE":
                cnt[e[1]] = cnt.get(e[1], 0) + 1
        for (li, pi), ad in world.adapters.items():
            n = cnt.get(f"L{li}.a{pi}", 0)
            if n != 1:
                v("adapter-finalize-count", "c03", f"adapter L{li}.a{pi} ({sc['links'][li]['chain'][pi]['kind']}) finalized {n} times")
    last = {}
    for e in rec.events:
        if e[0] == "UPDATE_ENTER":
            ci = cidx[e[1]]
            idx = sims.index(ci)
            last[e[1]] = e[2]["times"][idx]
        elif e[0] == "UPDATE_EXIT":
            if e[2] is not None and e[1] in last and not e[2] > last[e[1]]:
                v("time-not-increasing", "c03", f"{e[1]}: time {last[e[1]]} -> {e[2]}")

    # context for the recorded finding "shared pull-based component merges request streams":
    # it only applies when the merged stream really was non-monotone / carried duplicates
    prov = {}
    prov_targets = {}
    for e in rec.events:
        # requests arriving at the outputs of pull-based components (stub or real) while running
        if e[0] == "GET" and e[4] is not None and e[1] and e[1].split(".")[0] in cidx and \
                sc["components"][cidx[e[1].split(".")[0]]]["kind"] in ("pull", "wsum"):
            prov.setdefault(e[1].split(".")[0], []).append(e[2])
            prov_targets.setdefault(e[1].split(".")[0], set()).add(e[3])
    shared_ctx = {}
    for pname, ts in prov.items():
        pi = cidx[pname]
        if len(consumers_of(sc, pi)) < 2:
            continue
        nonmono = any(F(b) < F(a) for a, b in zip(ts, ts[1:]))
        dup = len(set(ts)) < len(ts)
        stateful_up = bool(_up_kinds(sc, pi) & {"avg", "sum", "delay_pull"})
        # requests of two or more consumer links interleave in a pull-counting DelayToPull upstream
        inter = "delay_pull" in _up_kinds(sc, pi) and len(prov_targets.get(pname, ())) >= 2
        shared_ctx[pname] = "nonmono" if nonmono else ("dup-stateful" if dup and stateful_up else
                                                       ("interleaved-delay-pull" if inter else "clean"))
    for x in viol:
        if x.get("comp") in cidx:
            ups = upstream_pull_comps(sc, cidx[x["comp"]])
            st = [shared_ctx.get(sc["components"][p]["name"]) for p in ups]
            x["shared_ctx"] = "nonmono" if "nonmono" in st else (
                "dup-stateful" if "dup-stateful" in st else (
                    "interleaved-delay-pull" if "interleaved-delay-pull" in st else "clean"))

    log = [e for e in rec.events if e[0] in ("UPDATE_ENTER", "PUSH", "GET", "PROVIDER", "LIFECYCLE", "UPDATE_RAISE")]
    infos = {}
    for ci, comp in enumerate(comps):
        for n, inp in comp.inputs.items():
            inf = inp.info
            if inf is not None:
                infos[f"{comp.name}.{n}"] = [str(inf.units), tick(inf.time) if inf.time is not None else None,
                                             repr(inf.grid), str(inf.mask)]
        for n, out in comp.outputs.items():
            inf = getattr(out, "_output_info", None)
            if inf is not None:
                infos[f"{comp.name}.{n}"] = [str(inf.units), tick(inf.time) if inf.time is not None else None,
                                             repr(inf.grid), str(inf.mask)]
    obs = {
        "infos": infos,
        "status": status, "exc": ename, "exc_msg": str(exc)[:400] if exc is not None else None,
        "final_times": {sc["components"][i]["name"]: tick(comps[i].time) for i in sims},
        "series": {f"{sc['components'][ci]['name']}.i{ii}": s for (ci, ii), s in sorted(series.items())},
        "n_updates": rec.n_updates,
        "n_connects": dict(rec.n_connects),
    }
    return {
        "obs": obs, "violations": viol, "probes": probes, "faults": dict(world.faults),
        "digest": digest_of([log, obs["final_times"], obs["series"], status, ename]),
        "sig": digest_of(sched_sig), "state_sigs": sorted(state_sigs),
        "sim_hours": sum(max(0, tick(comps[i].time) - sc["components"][i]["start"]) for i in sims),
        "events": rec.events, "world": world,
    }


class _Hooked(list):
    def __init__(self, cb):
        super().__init__()
        self.cb = cb

    def append(self, item):
        super().append(item)
        self.cb(item)
