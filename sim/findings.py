"""Predicates ("signatures") that identify the recorded known findings.

A finding listed as `open:` in /verif/known_findings.txt is tolerated only when
its predicate holds for the (minimised) scenario and the violation; any other
violation of the same property is reported normally.
"""


def upstream_pull_comps(sc, ci, seen=None):
    """pull-based components reachable upstream of component ci"""
    seen = seen if seen is not None else set()
    out = set()
    for ln in sc["links"]:
        if ln.get("dst") and ln["dst"][0] == ci:
            s = ln["src"][0]
            if s in seen:
                continue
            seen.add(s)
            if sc["components"][s]["kind"] in ("pull", "wsum"):
                out.add(s)
                out |= upstream_pull_comps(sc, s, seen)
    return out


def consumers_of(sc, ci):
    return [ln for ln in sc["links"] if ln["src"][0] == ci and ln.get("dst")]


def shared_pull_upstream(sc, comp_name):
    """the component reads (transitively) through a pull-based component that serves more
    than one consumer link"""
    idx = {c["name"]: i for i, c in enumerate(sc["components"])}
    if comp_name not in idx:
        return False
    for p in upstream_pull_comps(sc, idx[comp_name]):
        if len(consumers_of(sc, p)) >= 2:
            return True
    return False


def any_shared_pull(sc):
    return any(c["kind"] in ("pull", "wsum") and len(consumers_of(sc, i)) >= 2
               for i, c in enumerate(sc["components"]))


SHARED = "shared-pull-component-merges-requests"
SHARED_DTP = "shared-pull-component-interleaves-delay-to-pull"


def e1_known_sig(sc, v):
    """The recorded finding covers FAILING pulls (FinamTimeError; the None-sum AttributeError of SumOverTime on
    a duplicated request) of a component that reads through a pull-based component serving two or more consumer
    links whose merged request stream, as observed in this run, went backwards in time or carried duplicates into
    a stateful adapter.  Silent wrong values, wrong schedules or wrong request times are never excused."""
    comp = v.get("comp") or ""
    if not comp or not shared_pull_upstream(sc, comp):
        return None
    o, k = v["oracle"], v.get("kind")
    timeerr = k == "FinamTimeError"
    if v.get("shared_ctx") == "interleaved-delay-pull":
        # second shape of the same root cause: the requests of two consumer links reach one pull-counting
        # DelayToPull through the shared component; the first pull of an update advances the adapter's pull
        # window, the second is then shifted to a later time than the one the driver checked.  Only the
        # failing pull itself is covered.
        if o in ("update-raises", "run-raises", "weighted-sum", "extrapolating-get") and (timeerr or o == "extrapolating-get"):
            return SHARED_DTP
        return None
    if v.get("shared_ctx") not in ("nonmono", "dup-stateful"):
        return None
    # SumOverTime hands on None when the merged request stream makes its integration interval empty or negative
    none_sum = k in ("AttributeError", "TypeError") and "NoneType" in v.get("msg", "")
    if o in ("update-raises", "run-raises", "weighted-sum") and timeerr:
        return SHARED
    if o in ("update-raises-other", "run-raises", "weighted-sum") and none_sum:
        return SHARED
    if o == "model-series-differs" and k == "refuse" and "zero-length" in v.get("msg", ""):
        return SHARED       # the ideal link refuses an empty/negative integration interval, finam answers something
    if o == "extrapolating-get":
        return SHARED       # always accompanied by the failing pull above
    return None
