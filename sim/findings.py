"""Predicates ("signatures") that identify the recorded known findings.

A finding listed as `open:` in /verif/known_findings.txt is tolerated only when
its predicate holds for the (minimised) scenario and the violation; any other
violation of the same property is reported normally.
"""


def upstream_pull_comps(sc, ci, seen=None):
    """pull-based components reachable upstream of component ci"""
    seen = seen if seen is not None else set()
    out = set()
    for ln in sc["links"]:
        if ln.get("dst") and ln["dst"][0] == ci:
            s = ln["src"][0]
            if s in seen:
                continue
            seen.add(s)
            if sc["components"][s]["kind"] in ("pull", "wsum"):
                out.add(s)
                out |= upstream_pull_comps(sc, s, seen)
    return out


def consumers_of(sc, ci):
    return [ln for ln in sc["links"] if ln["src"][0] == ci and ln.get("dst")]


def shared_pull_upstream(sc, comp_name):
    """the component reads (transitively) through a pull-based component that serves more
    than one consumer link"""
    idx = {c["name"]: i for i, c in enumerate(sc["components"])}
    if comp_name not in idx:
        return False
    for p in upstream_pull_comps(sc, idx[comp_name]):
        if len(consumers_of(sc, p)) >= 2:
            return True
    return False


def any_shared_pull(sc):
    return any(c["kind"] in ("pull", "wsum") and len(consumers_of(sc, i)) >= 2
               for i, c in enumerate(sc["components"]))


SHARED = "shared-pull-component-merges-requests"


def e1_known_sig(sc, v):
    """Scheduling/data oracles of a component that reads (transitively) through a pull-based
    component serving two or more consumer links."""
    comp = v.get("comp") or ""
    if v["oracle"] in ("update-raises", "update-raises-other", "run-raises", "req-mismatch",
                       "extrapolating-get", "req-unmet", "illegal-update", "model-series-differs",
                       "order-series-differs", "order-outcome-differs") and comp and \
            shared_pull_upstream(sc, comp) and v.get("shared_ctx") in ("nonmono", "dup-stateful"):
        # only when the merged request stream observed in this run really went backwards in time (or
        # carried duplicates into a stateful adapter); a shared component with a monotone stream works
        return SHARED
    return None
