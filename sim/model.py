"""Executable reference models (oracles).  Pure Python; ticks are ints/Fractions,
values are floats.  Nothing in here imports finam.

M-link : ideal semantics of a link (source series -> adapters -> consumer) on
         UNLIMITED history, so a premature eviction can never be compensated.
M-req  : which source publication time a consumer request needs.
"""
from fractions import Fraction
from itertools import product

BUFFERING = {"next", "prev", "linear", "step", "avg", "sum"}
DELAYS = {"delay_fixed", "delay_pull", "delay_push"}


# unit catalogue for link traffic: (factor to SI of its dimension, offset in SI)
UNIT_TABLE = {"": (1.0, 0.0), "m": (1.0, 0.0), "km": (1000.0, 0.0), "mm": (0.001, 0.0), "cm": (0.01, 0.0),
              "s": (1.0, 0.0), "m/s": (1.0, 0.0), "mm/d": (0.001 / 86400.0, 0.0), "m s": (1.0, 0.0),
              "mm s": (0.001, 0.0), "K": (1.0, 0.0), "degC": (1.0, 273.15),
              # dimensionless but scaled: plain numbers, percent, parts per million
              "1": (1.0, 0.0), "percent": (0.01, 0.0), "ppm": (1e-6, 0.0)}


def convert(v, u_from, u_to):
    """magnitude of v [u_from] expressed in u_to (independent table, no pint)"""
    if u_to is None or u_from == u_to:
        return v
    f1, o1 = UNIT_TABLE[u_from]
    f2, o2 = UNIT_TABLE[u_to]
    return (v * f1 + o1 - o2) / f2


class ModelRefuse(Exception):
    """The ideal link refuses the request (time error expected)."""

    def __init__(self, kind, msg=""):
        super().__init__(f"{kind}: {msg}")
        self.kind = kind


class Unknown(Exception):
    """The property leaves the result open (e.g. depends on push timing)."""


def F(x):
    return x if isinstance(x, Fraction) else Fraction(x)


def close(a, b, rel=1e-9, ab=1e-9):
    return abs(a - b) <= ab + rel * max(abs(a), abs(b))


def any_close(x, alts):
    return any(close(x, a) for a in alts)


def _cap(vals):
    out = []
    for v in vals:
        if not any(v == o for o in out):
            out.append(v)
    if len(out) > 16:
        raise Unknown("too many tie alternatives")
    return tuple(out)


def nearest(pubs, t, newest_idx=None):
    """Nearest publication value(s) for request t in pubs [(tick, value)] (sorted).
    Either neighbour exactly at the midpoint.  Range: [first, last]."""
    if not pubs:
        raise ModelRefuse("nodata")
    if t < pubs[0][0]:
        raise ModelRefuse("past", f"{t} < {pubs[0][0]}")
    if t > pubs[-1][0]:
        raise ModelRefuse("future", f"{t} > {pubs[-1][0]}")
    for i, (tp, v) in enumerate(pubs):
        if tp == t:
            return (v,)
        if tp > t:
            t0, v0 = pubs[i - 1]
            d0, d1 = F(t) - F(t0), F(tp) - F(t)
            if d0 < d1:
                return (v0,)
            if d1 < d0:
                return (v,)
            return _cap((v0, v))
    raise AssertionError


# ------------------------------------------------------------- interpolation maths
def interp_at(entries, t, kind, p=None):
    """entries [(tick, alts)], t within [first,last]."""
    if t < entries[0][0]:
        raise ModelRefuse("past")
    if t > entries[-1][0]:
        raise ModelRefuse("future")
    def known(x):
        if x is None:
            raise Unknown("buffer entry unspecified")
        return x
    for i, (te, alts) in enumerate(entries):
        if te == t:
            return known(alts)
        if te > t:
            t0, a0 = entries[i - 1]
            if kind == "next":
                return known(alts)
            if kind == "prev":
                return known(a0)
            known(alts), known(a0)
            w = F(F(t) - F(t0)) / F(F(te) - F(t0))
            if kind == "linear":
                wf = float(w)
                return _cap(tuple(x0 + wf * (x1 - x0) for x0, x1 in product(a0, alts)))
            if kind == "step":
                return alts if w > F(p) else a0
            raise AssertionError(kind)
    raise AssertionError


def _piece_integral(t0, v0, t1, v1, a, b, p):
    """integral over [a,b] (subset of [t0,t1]) of the interpolant between (t0,v0),(t1,v1);
    p None = linear, else step interpolant with relative position p (old value up to and
    including t0+p*(t1-t0), new value after).  Result in value*ticks."""
    a, b, t0, t1 = F(a), F(b), F(t0), F(t1)
    if b <= a:
        return 0.0
    if p is None:
        L = t1 - t0
        va = v0 + float((a - t0) / L) * (v1 - v0)
        vb = v0 + float((b - t0) / L) * (v1 - v0)
        return float(b - a) * 0.5 * (va + vb)
    ts = t0 + F(p) * (t1 - t0)
    old = max(F(0), min(b, ts) - a)
    new = max(F(0), b - max(a, ts))
    return float(old) * v0 + float(new) * v1


def integral(entries, a, b, p):
    """exact integral over [a,b] of the interpolant of entries (single-valued)."""
    tot = 0.0
    for i in range(len(entries) - 1):
        t0, v0 = entries[i]
        t1, v1 = entries[i + 1]
        lo, hi = max(F(a), F(t0)), min(F(b), F(t1))
        if hi > lo:
            tot += _piece_integral(t0, v0, t1, v1, lo, hi, p)
    return tot


def weighted_sum_abs(entries, a, b, p):
    """SumOverTime(per_time=False): every source interval contributes the integral of the
    interpolant over its overlap with [a,b] divided by the interval length."""
    tot = 0.0
    for i in range(len(entries) - 1):
        t0, v0 = entries[i]
        t1, v1 = entries[i + 1]
        lo, hi = max(F(a), F(t0)), min(F(b), F(t1))
        if hi > lo:
            tot += _piece_integral(t0, v0, t1, v1, lo, hi, p) / float(F(t1) - F(t0))
    return tot


# ----------------------------------------------------------------------- link model
class LinkModel:
    """One link: source -> chain[0] -> ... -> chain[n-1] -> consumer.

    source_pubs(upto) must return the sorted publication list [(tick, value)] of the
    source containing at least every publication with tick <= upto and, if upto is not
    itself a publication time, the first one beyond (the producer can always go on).
    For a pull-based source, source_eval(t) returns the tuple of acceptable values.
    """

    def __init__(self, chain, init_time, source_pubs=None, source_eval=None,
                 tick_seconds=None, now_newest=None):
        self.chain = chain
        self.init = init_time
        self.source_pubs = source_pubs
        self.source_eval = source_eval
        if tick_seconds is None:
            from . import timebase
            tick_seconds = timebase.tick_seconds()
        self.tick_seconds = tick_seconds
        self.now_newest = now_newest          # callable -> newest publication tick "now" (delay_push)
        n = len(chain)
        self.hist = [[] for _ in range(n)]    # delay_pull request history
        self.prev = [None] * n                # avg/sum previous request
        self.entries = [[] for _ in range(n)]  # buffering: [(tick, alts)]
        self.src_times_seen = [0] * n
        self.src_requests = []                # times reaching the source (spy)

    # ---- requests ---------------------------------------------------------
    def pull_initial(self, t):
        """the single initial pull of the connect phase (registered exactly once)"""
        if getattr(self, "_init_memo", None) is None:
            self._init_memo = self.pull(t)
        return self._init_memo

    def pull(self, t, pos=None):
        pos = len(self.chain) - 1 if pos is None else pos
        if pos < 0:
            if self.source_eval is not None:
                self.src_requests.append(t)
                return self.source_eval(t)
            val = nearest(self.source_pubs(t), t)
            self.src_requests.append(t)       # a refused request is not registered by the output
            return val
        a = self.chain[pos]
        k = a["kind"]
        if k == "scale":
            return tuple(v * float(a["f"]) for v in self.pull(t, pos - 1))
        if k == "callback":
            return tuple(v + float(a["c"]) for v in self.pull(t, pos - 1))
        if k == "nobranch":
            return self.pull(t, pos - 1)
        if k == "delay_fixed":
            return self.pull(self.delay_time(pos, t, commit=True), pos - 1)
        if k == "delay_pull":
            t2 = self.delay_time(pos, t, commit=False)
            try:
                val = self.pull(t2, pos - 1)
            except ModelRefuse:
                raise                         # _pulled() is only called after a successful pull
            except Unknown:
                self.hist[pos].append(t)
                raise
            self.hist[pos].append(t)
            return val
        if k == "delay_push":
            return self.pull(self.delay_time(pos, t, commit=True), pos - 1)
        if k in BUFFERING:
            return self._buffered(pos, t)
        raise ValueError(k)

    def delay_time(self, pos, t, commit=False):
        a = self.chain[pos]
        k = a["kind"]
        if k == "delay_fixed":
            off = F(t) - F(a["d"])
            # clamped to the source's initial time, but never later than the request itself
            return _norm(off if off >= F(self.init) else min(F(t), F(self.init)))
        if k == "delay_pull":
            h = self.hist[pos]
            n = int(a["n"])
            # request number k=len(h)+1 uses request k-n (request <=0 is the initial time)
            idx = len(h) + 1 - n
            base = h[idx - 1] if idx >= 1 else self.init
            off = F(base) - F(a.get("x", 0))
            return _norm(min(F(t), max(off, F(self.init))))
        if k == "delay_push":
            if self.now_newest is None:
                raise Unknown("delay_push depends on publication timing")
            nn = self.now_newest()
            if nn is None:
                return self.init
            return _norm(min(F(t), F(nn)))
        raise ValueError(k)

    # ---- buffering adapters -------------------------------------------------
    def _fill(self, pos, upto):
        """buffer entries for every source publication (notification) with tick <= upto,
        plus the first beyond if the producer gets there."""
        if self.source_pubs is None:
            raise ModelRefuse("deadlink", "push-based adapter after pull-based source")
        pubs = self.source_pubs(upto)
        ent = self.entries[pos]
        n = len(pubs)
        while len(ent) < n:
            T = pubs[len(ent)][0]
            # value pulled by the adapter when notified at T (upstream part of the chain)
            try:
                val = self.pull(T, pos - 1)
            except Unknown:
                val = None                    # unspecified entry; state upstream stays in step
            ent.append((T, val))
        return ent

    def _buffered(self, pos, t):
        a = self.chain[pos]
        k = a["kind"]
        ent = self._fill(pos, t)
        if not ent:
            raise ModelRefuse("nodata")
        if k in ("next", "prev", "linear", "step"):
            return interp_at(ent, t, k, a.get("p"))
        # ---- integration
        if t < ent[0][0]:
            raise ModelRefuse("past")
        if t > ent[-1][0]:
            raise ModelRefuse("future")
        if self.prev[pos] is None:
            self.prev[pos] = ent[0][0]
        p0 = self.prev[pos]
        self.prev[pos] = t
        p = a.get("p")
        p = None if p is None else F(p)
        if any(al is None or len(al) > 1 for _, al in ent):
            raise Unknown("tie or unspecified entry inside integration buffer")
        single = [(T, al[0]) for T, al in ent]
        ts = self.tick_seconds
        if t <= ent[0][0] or len(ent) == 1:
            v = single[0][1]
            if k == "avg":
                return (v,)
            if a.get("per_time", True):
                return (v * float(F(a.get("init", 0))) * ts,)
            return (v,)
        if F(t) <= F(p0):
            raise ModelRefuse("zero-length", "integration over empty interval")
        if k == "avg":
            return (integral(single, p0, t, p) / float(F(t) - F(p0)),)
        if a.get("per_time", True):
            return (integral(single, p0, t, p) * ts,)
        return (weighted_sum_abs(single, p0, t, p),)

    # ---- requirement (M-req) --------------------------------------------------
    def required_source_time(self, t):
        """Source publication time needed to serve a consumer request for t; None if the
        link carries a dependency-breaking adapter that takes effect.  Does not change
        model state."""
        for pos in range(len(self.chain) - 1, -1, -1):
            k = self.chain[pos]["kind"]
            if k in BUFFERING:
                return t            # the buffer must reach t; upstream delays cannot relax this
            if k == "delay_push":
                return None
            if k in ("delay_fixed", "delay_pull"):
                t = self.delay_time(pos, t, commit=False)
        return t


def _norm(fr):
    fr = F(fr)
    return int(fr) if fr.denominator == 1 else fr


# ------------------------------------------------------------------- E1 scenario model
class E1Model:
    """Schedule-independent prediction for an E1 scenario: the publication series of
    every stub output is a pure function of the scenario, hence so is what every
    consumer input must receive for a given request time."""

    MAX_PUBS = 5000

    def __init__(self, sc):
        self.sc = sc
        sims = [c for c in sc["components"] if c["kind"] == "sim"]
        self.t0 = min(c["start"] for c in sims) if sims else None
        self.links = {}      # (dst comp, dst input) -> link index
        for li, ln in enumerate(sc["links"]):
            if ln.get("dst") is not None:
                self.links[tuple(ln["dst"])] = li
        self._pubs = {}
        self.lm = {}
        for li, ln in enumerate(sc["links"]):
            self.lm[li] = self._make_link(li, ln)

    # publication series of sim outputs -----------------------------------------
    def pubs(self, ci, oi, upto):
        c = self.sc["components"][ci]
        o = c["outputs"][oi]
        key = (ci, oi)
        st = self._pubs.get(key)
        if st is None:
            v0 = float(o["base"])
            lst = [(self.t0, v0)]
            if c["start"] != self.t0:
                lst.append((c["start"], v0))
            st = {"list": lst, "k": 0, "t": c["start"]}
            self._pubs[key] = st
        lst = st["list"]
        fin = c.get("finish_at")
        while lst[-1][0] < upto and st["k"] < self.MAX_PUBS:
            if fin is not None and st["k"] >= fin:
                break
            k = st["k"]
            st["t"] = st["t"] + c["steps"][k % len(c["steps"])]
            st["k"] = k + 1
            if (k + 1) not in o.get("nopush", ()):
                lst.append((st["t"], float(o["base"] + ((k + 1) // o.get("plateau", 1)) * o.get("inc", 1))))
        return lst

    def _make_link(self, li, ln):
        sc = self.sc
        sci, soi = ln["src"]
        src = sc["components"][sci]
        if src["kind"] == "sim" and src["outputs"][soi].get("static"):
            v0 = float(src["outputs"][soi]["base"])
            return LinkModel(ln["chain"], self.t0, source_eval=lambda t, v0=v0: (v0,))
        if src["kind"] == "sim":
            init = src["start"]
            return LinkModel(ln["chain"], init, source_pubs=lambda upto, a=sci, b=soi: self.pubs(a, b, upto),
                             now_newest=lambda a=sci, b=soi: self._newest(a, b))
        if src["kind"] == "static":
            # one publication, served unchanged for every request time (chains are pass-through only)
            v0 = float(src["outputs"][soi]["base"])
            if src["inputs"]:
                # derived from the initial values of its own inputs (pulled once, for the composition start)
                def evs(t, sci=sci, v0=v0):
                    alts = [(v0,)]
                    for ii in range(len(sc["components"][sci]["inputs"])):
                        alts.append(self.lm[self.links[(sci, ii)]].pull_initial(self.t0))
                    return _cap(tuple(sum(x) for x in product(*alts)))
                return LinkModel(ln["chain"], self.t0, source_eval=evs)
            return LinkModel(ln["chain"], self.t0, source_eval=lambda t, v0=v0: (v0,))
        # pull-based source: info time comes from the consumer side
        init = self.t0      # pull-based stubs declare the composition start on their slots
        o = src["outputs"][soi]
        if src["kind"] == "wsum":
            init = self._wsum_init(sci)

            def evw(t, sci=sci):
                names = [i["name"] for i in src["inputs"]]
                u0 = self._in_units(sci, 0)
                terms, pending = [], None
                for k in range(0, len(names), 2):
                    pair = []
                    for ii in (k, k + 1):
                        l2 = self.links[(sci, ii)]
                        try:
                            pair.append(self.lm[l2].pull_initial(t) if self.initial_mode else self.lm[l2].pull(t))
                        except (Unknown, ModelRefuse) as e:
                            pending = pending or e
                    if pending is None:
                        uk = self._in_units(sci, k)
                        terms.append(tuple(convert(a, uk, u0) * w for a, w in product(*pair)))
                if pending is not None:
                    raise pending
                return _cap(tuple(sum(x) for x in product(*terms)))
            return LinkModel(ln["chain"], init, source_eval=evw)

        def ev(t, sci=sci, o=o):
            alts = [(float(o["base"]) + float(src.get("timefn", 0)) * float(t),)]
            pending = None
            for ii in range(len(sc["components"][sci]["inputs"])):
                l2 = self.links.get((sci, ii))
                if l2 is None:
                    raise Unknown("unconnected")
                try:        # every input is pulled (state stays in step) even if one is unspecified
                    alts.append(self.lm[l2].pull_initial(t) if self.initial_mode else self.lm[l2].pull(t))
                except (Unknown, ModelRefuse) as e:
                    pending = pending or e
            if pending is not None:
                raise pending
            return _cap(tuple(sum(x) for x in product(*alts)))
        return LinkModel(ln["chain"], init, source_eval=ev)

    def _in_units(self, ci, ii):
        """units delivered to input ii of component ci (source units; chains here are unit preserving)"""
        ln = self.sc["links"][self.links[(ci, ii)]]
        s = self.sc["components"][ln["src"][0]]
        return s["outputs"][ln["src"][1]].get("units", "")

    def _wsum_init(self, ci):
        ln = self.sc["links"][self.links[(ci, 0)]]
        s = self.sc["components"][ln["src"][0]]
        return s["start"] if s["kind"] == "sim" else self.t0

    def _consumer_start(self, li):
        ln = self.sc["links"][li]
        dst = ln.get("dst")
        if dst is None:
            return self.t0
        c = self.sc["components"][dst[0]]
        if c["kind"] == "sim":
            return c["start"]
        # pull comp / sink consumer: time propagated from further downstream; not modelled
        return None

    initial_mode = False
    newest_cb = None        # set by the monitor: newest publication tick of a stub output right now

    def _newest(self, ci, oi):
        if self.newest_cb is None:
            raise Unknown("delay_push depends on publication timing")
        return self.newest_cb(ci, oi)

    def expect(self, ci, ii, t, initial=False):
        """acceptable values for a pull of input ii of component ci at tick t"""
        li = self.links[(ci, ii)]
        if initial:
            self.initial_mode = True
            try:
                vals = self.lm[li].pull_initial(t)
            finally:
                self.initial_mode = False
        else:
            vals = self.lm[li].pull(t)
        # unit conversion at the receiving input (unit preserving chains only)
        cu = self.sc["components"][ci]["inputs"][ii].get("units")
        if cu:
            ln = self.sc["links"][li]
            s = self.sc["components"][ln["src"][0]]
            su = self._in_units(ln["src"][0], 0) if s["kind"] == "wsum" else s["outputs"][ln["src"][1]].get("units", "")
            if su != cu:
                vals = tuple(convert(x, su, cu) for x in vals)
        return vals

    def required(self, ci, ii, t, seen=None):
        """set of (src comp, src output, required tick) among sim components"""
        li = self.links.get((ci, ii))
        if li is None:
            return set()
        ln = self.sc["links"][li]
        tr = self.lm[li].required_source_time(t)
        if tr is None:
            return set()
        sci, soi = ln["src"]
        src = self.sc["components"][sci]
        if src["kind"] == "static" or src["outputs"][soi].get("static"):
            return set()
        if src["kind"] == "sim":
            return {(sci, soi, tr)}
        out = set()
        seen = seen or set()
        if (sci, tr) in seen:
            return out
        seen = seen | {(sci, tr)}
        for jj in range(len(src["inputs"])):
            out |= self.required(sci, jj, tr, seen)
        return out
