"""Library family (engine "L"): compositions made of REAL finam.components only, under the real Composition.

  producer : CallbackGenerator (regular steps)  |  CsvReader (rows at irregular times read from a real file)
             every publication carries "hours since 2000-01-01" of its own time, so a received value names the
             publication it came from
  stages   : [WeightedSum with a static weight (pull-based)]  [TimeTrigger (re-times the stream, push-based again)]
  consumers: DebugConsumer | CsvWriter (real output file, read back)  - time-stepped, any step and start
             DebugPushConsumer | ScheduleLogger                       - push-based, notified by every publication
  links    : direct | Scale

No model of the scheduler is involved; the oracles are value-aware only through the nearest-publication rule of a
link, evaluated on the publication times the scenario fixes:
  lib-run-raises      run() of a valid composition raised
  lib-value           a consumer received something else than the publication nearest to its request (through the
                      pull-based merger: for exactly the requested time; through the trigger: the trigger's own
                      publications), converted to its units
  lib-status          a component does not end FINALIZED
  lib-end-not-reached a time component stopped before the end although it did not run out of input rows
  lib-file            the writer's file does not hold one row per step with the times and values it was handed
"""
import os
import shutil
from datetime import datetime, timedelta
from fractions import Fraction

from . import bootstrap  # noqa: F401
from .core import digest_of

EPOCH = datetime(2000, 1, 1)
UF = {"m": 1.0, "km": 1000.0, "": 1.0}


def T(h):
    return EPOCH + timedelta(hours=float(h))


def H(t):
    return (t - EPOCH) / timedelta(hours=1)


def gen_library(tape, need_stage=False):
    prod = tape.weighted([("cbgen", 3), ("csv", 2)])
    pstart = tape.choice([0, 0, 0, 5, 24])
    sc = {"engine": "L", "prod": prod, "pstart": pstart, "punits": tape.choice(["m", "", "km", "m"])}
    if prod == "cbgen":
        sc["pstep"] = tape.choice([1, 2, 3, 6, 12, 24])
    else:
        n = tape.rng_int(3, 14)
        sc["gaps"] = [tape.choice([1, 2, 3, 6, 12, 24, 30]) for _ in range(n - 1)]
        sc["date_format"] = tape.choice([None, None, "%d.%m.%Y %H:%M"])
        sc["sep"] = tape.choice([";", ","])
    sc["wsum"] = tape.chance(1, 3)
    sc["weight"] = tape.choice([2.0, 0.5, 1.0])
    sc["trigger"] = tape.chance(1, 3)
    if need_stage and not (sc["wsum"] or sc["trigger"]):
        sc["wsum"] = True
    if sc["trigger"] and not sc["wsum"] and not (prod == "cbgen" and sc["pstep"] < 12):
        # a trigger that pulls the same publication of a push-based source twice would publish the very same array
        # again (refused as memory sharing): directly behind a producer it must step more coarsely than the producer
        sc["wsum"] = True
    if sc["trigger"]:
        sc["tstep"] = tape.choice([2, 3, 4, 6, 12])
        if not sc["wsum"]:
            sc["tstep"] = tape.choice([t for t in (2, 3, 4, 6, 12, 24) if t > sc["pstep"]])
        sc["tstart"] = pstart + tape.choice([0, 0, 0, 3])
        sc["t_info"] = tape.choice(["in", "out", "both"])
        if not sc["wsum"] and tape.chance(1, 3):
            # the documented TimeTrigger(start=None): it takes its start from its input (the producer's start) and has
            # no time of its own before the connect phase
            sc["tstart"], sc["t_start_none"], sc["t_info"] = pstart, True, tape.choice(["in", "both"])
    pushable = sc["trigger"] or not sc["wsum"]           # the last stage publishes by itself
    cons = []
    # (a pull-based component read through several consumer links is the recorded finding
    # shared-pull-component-merges-requests: the merger gets one reader unless the trigger sits in between)
    for _ in range(tape.weighted([(1, 3), (2, 3), (3, 1)]) if pushable else 1):
        # (ScheduleLogger declares its inputs without units, i.e. dimensionless: it only accepts unit-less sources)
        kinds = [("dbg", 4), ("csvw", 2)] + ([("push", 2)] if pushable else []) + \
            ([("sched", 1)] if pushable and sc["punits"] == "" else [])
        k = tape.weighted(kinds)
        c = {"kind": k, "scale": tape.choice([None, None, 2.0, 0.5])}
        if k in ("dbg", "csvw"):
            c["step"] = tape.choice([1, 2, 3, 5, 6, 12, 24])
            c["start"] = pstart + tape.choice([0, 0, 0, 2, 7])
        if k == "dbg" and sc["punits"] in ("m", "km"):
            c["units"] = tape.choice([None, "m", "km"])
        if k == "sched":
            # (a ScheduleLogger that pulls does so at every notification AND once more for the composition start
            # while connecting: with a source that starts later than the composition - two initial publications -
            # its requests would go backwards in time)
            c["pull"] = tape.chance(1, 2) and (sc["tstart"] if sc["trigger"] else pstart) == pstart and not any(
                x.get("start", pstart) < pstart for x in cons)
        cons.append(c)
    sc["consumers"] = cons
    span = tape.weighted([(6, 8), (12, 8), (24, 8), (48, 8), (72, 8), (900, 1)])      # now and then a long run
    sc["end"] = pstart + span
    if prod == "csv":
        last = pstart + sum(sc["gaps"])
        timed = [c for c in cons if c["kind"] in ("dbg", "csvw")]
        if timed or sc["trigger"] or sc["wsum"]:
            # somebody asks the reader for data until its own last step (the first one at or beyond the end): the
            # file has to cover that
            finals = [sc["end"]]
            for c in timed:
                t = c["start"]
                while t < sc["end"]:
                    t += c["step"]
                finals.append(t)
            if sc["trigger"]:
                # ... through the trigger, which has to reach the latest of them on its own step grid
                t = sc["tstart"]
                while t < max(finals):
                    t += sc["tstep"]
                finals.append(t)
            while last < max(finals + [sc["end"]]):
                sc["gaps"].append(tape.choice([6, 24, 30]))
                last += sc["gaps"][-1]
        elif tape.chance(1, 2):
            # only push-based consumers: the file may well end before the end of the run ("read all of it")
            sc["end"] = last + tape.choice([1, 24, 100])
        else:
            sc["end"] = min(sc["end"], last)
    # the reader knows its time only after reading the file: the composition start is then given explicitly
    # (... unless another time component starts together with the file: the automatic start is then right anyway)
    others = [c["start"] for c in cons if "start" in c] + ([sc["tstart"]] if sc["trigger"] and not sc.get("t_start_none") else [])
    auto_ok = (prod != "csv" and not (sc.get("t_start_none") and not others)) or (others and min(others) == pstart)
    sc["start_given"] = (not auto_ok) or tape.chance(1, 3)
    sc["listing"] = tape.shuffle(list(range(8)))
    return sc


def _nearest(pubs, t):
    """values of the publication(s) nearest to t among [(time, value)]"""
    best = min(abs(Fraction(p[0]) - Fraction(t)) for p in pubs)
    return [p[1] for p in pubs if abs(Fraction(p[0]) - Fraction(t)) == best]


def run_library(sc):
    import numpy as np
    import finam as fm
    from finam.components import (CallbackGenerator, CsvReader, CsvWriter, DebugConsumer, DebugPushConsumer,
                                  ScheduleLogger, StaticCallbackGenerator, TimeTrigger, WeightedSum)
    from .world import scratch_dir
    viol, log = [], []

    def v(oracle, kind, msg):
        viol.append({"oracle": oracle, "kind": kind, "msg": msg + f"; scenario {sc}", "comp": ""})

    root = os.path.join(scratch_dir(), "library")
    shutil.rmtree(root, ignore_errors=True)
    os.makedirs(root, exist_ok=True)
    pstart = sc["pstart"]
    pu = sc["punits"]
    # ---- producer and its publication times (hours)
    if sc["prod"] == "cbgen":
        prod = CallbackGenerator({"o": (lambda t: H(t), fm.Info(time=None, grid=fm.NoGrid(), units=pu))},
                                 T(pstart), timedelta(hours=sc["pstep"]))
        ptimes = [pstart + k * sc["pstep"] for k in range(0, max(400, (sc["end"] - pstart) // sc["pstep"] + 80))]
        pout = "o"
    else:
        ptimes = [pstart]
        for g in sc["gaps"]:
            ptimes.append(ptimes[-1] + g)
        path = os.path.join(root, "in.csv")
        fmt = sc["date_format"]
        with open(path, "w") as f:
            f.write(sc["sep"].join(["T", "o", "other"]) + "\n")
            for h in ptimes:
                ts = T(h).isoformat() if fmt is None else T(h).strftime(fmt)
                f.write(sc["sep"].join([ts, repr(float(h)), "1.5"]) + "\n")
        prod = CsvReader(path=path, time_column="T", outputs={"o": pu}, date_format=fmt, separator=sc["sep"])
        pout = "o"
    prod.with_name("prod")
    comps = [prod]
    timed = [("prod", prod)]
    starts = [pstart] + [c["start"] for c in sc["consumers"] if "start" in c] + ([sc["tstart"]] if sc["trigger"] else [])
    t0 = min(starts)

    # publications of the producer as the links see them: (time, value); the initial value is published for the
    # composition start as well when the producer starts later
    ppubs = [(h, float(h)) for h in ptimes]
    if t0 != pstart:
        ppubs = [(t0, float(pstart))] + ppubs

    def P(t):
        return _nearest([p for p in ppubs if p[0] <= max(t, pstart) + 10 ** 6], t)

    cur_out = prod.outputs if False else None
    src = (prod, pout)
    factor = 1.0
    # ---- pull-based merger with a static weight
    if sc["wsum"]:
        wgen = StaticCallbackGenerator({"w": (lambda: sc["weight"], fm.Info(time=None, grid=fm.NoGrid(), units=""))})
        wgen.with_name("wgen")
        ws = WeightedSum(inputs=["A"])
        ws.with_name("wsum")
        comps += [wgen, ws]
        factor = sc["weight"]

    def X(t):
        return [x * factor for x in P(t)]

    # ---- trigger
    tpubs = None
    if sc["trigger"]:
        ii = fm.Info(time=None, grid=fm.NoGrid(), units=None)
        oi = fm.Info(time=None, grid=fm.NoGrid(), units=pu)
        kw = {"in": {"in_info": ii}, "out": {"out_info": oi}, "both": {"in_info": ii, "out_info": oi}}[sc["t_info"]]
        trig = TimeTrigger(start=None if sc.get("t_start_none") else T(sc["tstart"]), step=timedelta(hours=sc["tstep"]), **kw)
        trig.with_name("trig")
        comps.append(trig)
        timed.append(("trig", trig))

    cons_objs = []
    got = {}
    wpaths = {}
    for ci, c in enumerate(sc["consumers"]):
        name = f"c{ci}"
        got[name] = []

        def cb(n, d, t, name=name):
            got[name].append((H(t), float(np.asarray(d.magnitude).reshape(-1)[0]), str(d.units)))
        if c["kind"] == "dbg":
            o = DebugConsumer({"i": fm.Info(time=None, grid=fm.NoGrid(), units=c.get("units"))}, start=T(c["start"]),
                              step=timedelta(hours=c["step"]), callbacks={"i": cb})
            timed.append((name, o))
        elif c["kind"] == "csvw":
            wpaths[name] = os.path.join(root, f"{name}.csv")
            o = CsvWriter(path=wpaths[name], start=T(c["start"]), step=timedelta(hours=c["step"]), inputs=["i"],
                          time_column="when", separator=",")
            timed.append((name, o))
        elif c["kind"] == "push":
            o = DebugPushConsumer({"i": fm.Info(time=None, grid=fm.NoGrid(), units=None)}, callbacks={"i": cb})
        else:
            o = ScheduleLogger({"i": bool(c.get("pull"))}, time_step=timedelta(hours=6), log_level="DEBUG")
        o.with_name(name)
        cons_objs.append(o)
        comps.append(o)

    order = [i for i in sc["listing"] if i < len(comps)]
    composition = fm.Composition([comps[i] for i in order], print_log=False, log_level=50)
    # ---- links
    cur = prod.outputs[pout]
    if sc["wsum"]:
        cur >> ws.inputs["A"]
        wgen.outputs["w"] >> ws.inputs["A_weight"]
        cur = ws.outputs["WeightedSum"]
    if sc["trigger"]:
        cur >> trig.inputs["In"]
        cur = trig.outputs["Out"]
    for c, o in zip(sc["consumers"], cons_objs):
        if c["scale"] is not None:
            cur >> fm.adapters.Scale(c["scale"]) >> o.inputs["i"]
        else:
            cur >> o.inputs["i"]
    end = sc["end"]
    status = "ok"
    try:
        if sc.get("start_given"):
            composition.run(start_time=T(t0), end_time=T(end))
        else:
            composition.run(end_time=T(end))
    except Exception as e:      # noqa: BLE001
        status = type(e).__name__
        v("lib-run-raises", type(e).__name__, f"run() of a composition of library components raised {type(e).__name__}: {str(e)[:300]}")

    # ---- what the consumers' source publishes: (time, acceptable values)
    if sc["trigger"]:
        ts = sc["tstart"]
        tp = [(t0, X(t0))]
        if ts != t0:
            tp.append((ts, X(t0)))
        k = 1
        while ts + k * sc["tstep"] <= end + 2 * sc["tstep"] + 48:
            tp.append((ts + k * sc["tstep"], X(ts + k * sc["tstep"])))
            k += 1
        tpubs = tp

    def S(t):
        """acceptable values at the consumers' source for a request at t"""
        if tpubs is None:
            return X(t)
        best = min(abs(p[0] - t) for p in tpubs)
        out = []
        for p in tpubs:
            if abs(p[0] - t) == best:
                out += p[1]
        return out

    if status == "ok":
        for n, o in [(c.name, c) for c in comps]:
            if o.status != fm.ComponentStatus.FINALIZED:
                v("lib-status", str(o.status), f"{n} ends in {o.status}")
        last_row = ptimes[-1] if sc["prod"] == "csv" else None
        for n, o in timed:
            if o.time < T(end) and not (n == "prod" and last_row is not None and H(o.time) >= last_row):
                v("lib-end-not-reached", n, f"{n} stopped at {o.time}, end {T(end)}")
    # ---- values
    for ci, c in enumerate(sc["consumers"]):
        name = f"c{ci}"
        f = (c["scale"] or 1.0)
        cu = c.get("units") or pu
        conv = UF[pu] / UF[cu]
        rows = got[name]
        if c["kind"] == "csvw" and status == "ok":
            try:
                lines = open(wpaths[name]).read().strip().split("\n")
            except OSError as e:
                v("lib-file", "missing", f"{name}: output file not written: {e}")
                continue
            if lines[0] != "when,i":
                v("lib-file", "header", f"{name}: header {lines[0]!r}")
            rows = []
            for ln in lines[1:]:
                a, b = ln.split(",")
                rows.append((H(datetime.fromisoformat(a)), float(b), pu))
            nsteps = 0
            t = c["start"]
            while t < end:
                t += c["step"]
                nsteps += 1
            if len(rows) != nsteps + 1:
                v("lib-file", "rows", f"{name}: {len(rows)} rows for {nsteps} steps (+1 initial)")
        for k, (h, val, units) in enumerate(rows):
            if c["kind"] in ("dbg", "csvw"):
                # the first record comes from the connect phase: pulled for the composition start, labelled with the
                # consumer's own start
                req = t0 if k == 0 else h
                if k > 0 and abs((h - c["start"]) / c["step"] - round((h - c["start"]) / c["step"])) > 1e-9:
                    v("lib-value", "time", f"{name}: record {k} at hour {h} is off the consumer's step grid")
                    break
            else:
                req = h
            want = [x * f * conv for x in S(req)]
            log.append((name, h, val))
            if not any(abs(val - w) <= 1e-9 * max(1.0, abs(w)) for w in want):
                v("lib-value", c["kind"], f"{name} ({c['kind']}) record {k} for hour {h} (request {req}): got {val}, the "
                  f"publication(s) nearest to the request give {want}")
                break
            if c["kind"] == "dbg" and c.get("units") and units not in (c["units"], {"m": "meter", "km": "kilometer"}[c["units"]]):
                v("lib-value", "units", f"{name}: units {units}, asked for {c['units']}")
                break
    shutil.rmtree(root, ignore_errors=True)
    n_rec = sum(len(x) for x in got.values())
    kinds = sorted({c["kind"] for c in sc["consumers"]})
    return {"violations": viol, "digest": digest_of(log + [status]), "nontrivial": status == "ok" and n_rec >= 3,
            "faults": {"F7_listing_permuted": int(order != sorted(order)),
                       "F10_reader_runs_out_of_rows": int(sc["prod"] == "csv" and end > ptimes[-1])},
            "probes": {"library_runs": 1, "library_records": n_rec, "library_wsum": int(sc["wsum"]),
                       "library_trigger": int(sc["trigger"]), "library_csv_reader": int(sc["prod"] == "csv")},
            "sig": digest_of(log), "state_sigs": [], "sim_hours": int(end - t0),
            "cls": "L:" + status, "outcome": {"family": "library", "status": status, "records": n_rec, "consumers": kinds}}


# ------------------------------------------------------------------ noise family (engine "N")
def gen_noise(tape):
    """2-3 REAL SimplexNoise generators (pull-based, value = f(seed, requested time)) with different seeds, each read
    by a DebugConsumer of its own step; optionally a WeightedSum of two of them read by a further consumer"""
    n = tape.weighted([(2, 3), (3, 2)])
    gens = [{"seed": tape.choice([0, 1, 7, 11, 23, 42]) + 100 * i, "freq": tape.choice([1.0, 0.01]),
             "tfreq": tape.choice([1.0 / 86400.0, 1.0 / 3600.0]), "octaves": tape.choice([1, 1, 3])} for i in range(n)]
    cons = [{"gen": i, "step": tape.choice([1, 2, 3, 5, 24]), "start": tape.choice([0, 0, 0, 4])} for i in range(n)]
    sc = {"engine": "N", "gens": gens, "consumers": cons, "wsum": tape.chance(1, 3), "wstep": tape.choice([1, 2, 6]),
          "end": tape.choice([6, 12, 30]), "static_weight": tape.chance(1, 2),
          # the generators declare the time of their outputs (the composition start) - or leave it unset as SimplexNoise
          # does by default: then the first target that exchanges its metadata decides (recorded finding when that
          # target, the merger's input, has no time either)
          "declare_time": not tape.chance(1, 4)}
    k = n + len(cons) + (3 if sc["wsum"] else 0)
    sc["perms"] = [[tape.shuffle(list(range(k))), tape.shuffle(list(range(len(cons) + 3)))] for _ in range(4)]
    return sc


def _noise_once(sc, only=None, listing=None, link_order=None):
    """one composition; `only`: index of the single generator/consumer pair to build (isolation reference)"""
    import numpy as np
    import finam as fm
    from finam.components import DebugConsumer, SimplexNoise, StaticSimplexNoise, WeightedSum
    got = {}
    comps, links = [], []
    gt = T(0) if sc.get("declare_time", True) else None

    def cb(name):
        got[name] = []
        return lambda n, d, t: got[name].append((H(t), round(float(np.asarray(d.magnitude).reshape(-1)[0]), 12)))
    gens = {}
    for i, g in enumerate(sc["gens"]):
        if only is not None and i != only:
            continue
        gens[i] = SimplexNoise(info=fm.Info(time=gt, grid=fm.NoGrid(), units=""), frequency=g["freq"],
                               time_frequency=g["tfreq"], octaves=g["octaves"], seed=g["seed"]).with_name(f"gen{i}")
        comps.append(gens[i])
    for ci, c in enumerate(sc["consumers"]):
        if only is not None and c["gen"] != only:
            continue
        o = DebugConsumer({"i": fm.Info(time=None, grid=fm.NoGrid(), units="")}, start=T(c["start"]),
                          step=timedelta(hours=c["step"]), callbacks={"i": cb(f"c{ci}")}).with_name(f"c{ci}")
        comps.append(o)
        links.append((gens[c["gen"]].outputs, "Noise", o.inputs, "i"))
    if sc["wsum"] and only is None:
        ws = WeightedSum(inputs=["A"]).with_name("ws")
        if sc["static_weight"]:
            w = StaticSimplexNoise(info=fm.Info(time=None, grid=fm.NoGrid(), units=""), seed=5).with_name("w")
        else:
            w = SimplexNoise(info=fm.Info(time=gt, grid=fm.NoGrid(), units=""), seed=6).with_name("w")
        wc = DebugConsumer({"i": fm.Info(time=None, grid=fm.NoGrid(), units="")}, start=T(0),
                           step=timedelta(hours=sc["wstep"]), callbacks={"i": cb("wc")}).with_name("wc")
        comps += [ws, w, wc]
        links += [(gens[0].outputs, "Noise", ws.inputs, "A"), (w.outputs, "Noise", ws.inputs, "A_weight"),
                  (ws.outputs, "WeightedSum", wc.inputs, "i")]
    order = [i for i in (listing or range(len(comps))) if i < len(comps)]
    order += [i for i in range(len(comps)) if i not in order]
    composition = fm.Composition([comps[i] for i in order], print_log=False, log_level=50)
    lorder = [i for i in (link_order or range(len(links))) if i < len(links)]
    lorder += [i for i in range(len(links)) if i not in lorder]
    for li in lorder:
        a, an, b, bn = links[li]
        a[an] >> b[bn]
    status = "ok"
    try:
        composition.run(start_time=T(0), end_time=T(sc["end"]))
    except Exception as e:      # noqa: BLE001
        status = f"{type(e).__name__}: {str(e)[:200]}"
    return status, got


def run_noise(sc):
    viol = []

    def v(oracle, kind, msg):
        viol.append({"oracle": oracle, "kind": kind, "msg": msg + f"; scenario {sc}", "comp": ""})

    st0, base = _noise_once(sc)
    if st0 != "ok":
        v("lib-run-raises", st0.split(":")[0], f"composition of noise generators raised {st0}")
    # every consumer gets what its own generator delivers when it is alone in the composition
    if st0 == "ok":
        for i in range(len(sc["gens"])):
            st, ref = _noise_once(sc, only=i)
            for name, rows in ref.items():
                if st == "ok" and base.get(name) != rows:
                    d = next((a, b) for a, b in zip(base.get(name, []) + [None], rows + [None]) if a != b)
                    v("lib-value", "noise", f"{name} receives {d[0]} together with the other generators but {d[1]} when its "
                      f"generator (seed {sc['gens'][i]['seed']}) is alone in the composition")
                    break
    # ... and the same whatever the listing and linking order
    nperm = 0
    for listing, lorder in sc["perms"]:
        if viol:
            break
        st, got = _noise_once(sc, listing=listing, link_order=lorder)
        nperm += 1
        if st != st0:
            v("order-outcome-differs", "class", f"listing {listing} links {lorder}: {st} vs identity order {st0}")
        elif got != base:
            name = next(k for k in base if got.get(k) != base[k])
            v("order-series-differs", "series", f"listing {listing} links {lorder}: series of {name} differs from the identity "
              f"order: {got.get(name)[:4]} vs {base[name][:4]}")
    n_rec = sum(len(x) for x in base.values())
    return {"violations": viol, "digest": digest_of([sorted(base.items()), st0]), "nontrivial": st0 == "ok" and n_rec >= 4,
            "faults": {"F7_permutation_executed": nperm}, "probes": {"noise_runs": 1, "noise_records": n_rec},
            "sig": digest_of([st0, len(sc["gens"]), sc["wsum"]]), "state_sigs": [], "sim_hours": sc["end"] * (1 + nperm),
            "cls": "N:" + st0.split(":")[0], "outcome": {"family": "noise", "status": st0, "records": n_rec}}
