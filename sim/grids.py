"""Grid scenario helpers: seeded grid specs, the real finam grid built from a spec and
M-grid, the simulator's own index -> coordinate arithmetic (numpy only, no finam).
"""
from . import bootstrap  # noqa: F401
import numpy as np
import finam as fm


# ------------------------------------------------------------------ spec generation
def gen_structured(tape, *, kinds=("uniform", "rectilinear", "esri"), max_dim=3, max_len=5, min_len=1,
                   allow_degenerate=True, dim=None, big_coords=False):
    kinds = [k for k in kinds if dim in (None, 2) or k != "esri"]
    kind = tape.choice(list(kinds))
    if kind == "esri":
        sp = {"type": "esri", "ncols": tape.rng_int(1, max_len - 1), "nrows": tape.rng_int(1, max_len - 1),
              "cellsize": tape.choice([1.0, 0.5, 2.0]), "xll": tape.choice([0.0, 10.0, -3.5]),
              "yll": tape.choice([0.0, -2.0, 7.0]), "order": tape.choice(["C", "F"])}
        if big_coords and tape.chance(1, 4):
            # projected coordinates with fine cells (UTM-like): seven significant digits are not enough
            sp.update(cellsize=0.25, xll=4375000.25, yll=5700000.125)
        elif big_coords and tape.chance(1, 4):
            sp.update(cellsize=tape.choice([0.1, 0.2, 0.05]), xll=tape.choice([0.0, -180.0, 0.1]), yll=tape.choice([0.2, 50.0, -0.3]))
            sp["ncols"], sp["nrows"] = tape.rng_int(1, 8), tape.rng_int(1, 8)
        if tape.chance(1, 5):
            sp["cast"] = tape.choice(["uniform", "rectilinear", "uniform+rectilinear"])
        return sp
    dim = tape.rng_int(1, max_dim) if dim is None else dim
    lo = 1 if allow_degenerate else 2
    dims = [tape.rng_int(max(lo, min_len), max_len) for _ in range(dim)]
    if all(d == 1 for d in dims) and not allow_degenerate:
        dims[0] = 2
    cube = dim >= 2 and tape.chance(1, 4)      # coinciding axes: transposed layouts are then hard to tell apart
    if cube:
        dims = [dims[0]] * dim
    sp = {"type": kind, "dims": dims, "order": tape.choice(["F", "C"]), "rev": tape.chance(1, 2),
          "inc": [not tape.chance(1, 3) for _ in range(dim)],
          "loc": tape.choice(["cells", "points"])}
    if kind == "uniform":
        sp["spacing"] = [tape.choice([1.0, 0.5, 2.0, 3.0]) for _ in range(dim)]
        sp["origin"] = [tape.choice([0.0, 10.0, -4.0]) for _ in range(dim)]
        if big_coords and tape.chance(1, 4):
            sp["spacing"] = [0.25] * dim
            sp["origin"] = [4375000.25, 5700000.125, 1000000.375][:dim]
        elif big_coords and tape.chance(1, 4):
            # spacings that are no binary fractions (0.1 degree rasters and the like), origins off zero: node k sits at
            # origin + k * spacing, and there are exactly as many nodes as asked for
            sp["spacing"] = [tape.choice([0.1, 0.2, 0.05, 0.7]) for _ in range(dim)]
            sp["origin"] = [tape.choice([0.0, -180.0, 0.1, -0.3, 50.0]) for _ in range(dim)]
        if cube:
            sp["spacing"] = [sp["spacing"][0]] * dim
            sp["origin"] = [sp["origin"][0]] * dim
        if tape.chance(1, 5):
            sp["cast"] = "rectilinear"       # the same grid obtained through the library's own cast
    else:
        axes = []
        for d in dims:
            x = tape.choice([0.0, -5.0, 2.5])
            ax = [x]
            for _ in range(d - 1):
                x = x + tape.choice([1.0, 0.5, 2.0, 0.25, 3.0])
                ax.append(x)
            axes.append(ax)
        if cube:
            axes = [list(axes[0]) for _ in range(dim)]
        sp["axes"] = axes
    if tape.chance(1, 6):
        # the grid object was first used with the other data location (its points, shape and size were read) and
        # then switched - in place or on a copy
        sp["relocated"] = tape.choice(["inplace", "copy"])
    return sp


def relayout(tape, sp):
    """another layout (order, axes_reversed, per-axis direction) of the same geometry and data location"""
    if sp["type"] == "esri":
        # as uniform grid: dims are points
        base = {"type": "uniform", "dims": [sp["ncols"] + 1, sp["nrows"] + 1], "spacing": [sp["cellsize"]] * 2,
                "origin": [sp["xll"], sp["yll"]], "loc": "cells"}
        if sp.get("crs"):
            base["crs"] = sp["crs"]
    else:
        base = {k: v for k, v in sp.items() if k not in ("order", "rev", "inc", "cast", "relocated")}
    dim = len(base["dims"])
    base["order"] = tape.choice(["F", "C"])
    base["rev"] = tape.chance(1, 2)
    base["inc"] = [not tape.chance(1, 2) for _ in range(dim)]
    if base["type"] == "uniform" and tape.chance(1, 5):
        base["cast"] = "rectilinear"
    return base


# ----------------------------------------------------------------------- real grids
def _loc(name):
    return fm.Location.CELLS if name == "cells" else fm.Location.POINTS


def make_grid(sp):
    if sp and sp.get("relocated"):
        other = "points" if sp["loc"] == "cells" else "cells"
        g = _make_grid(dict(sp, loc=other))
        _ = (g.data_points, g.data_shape, g.data_size, g.data_axes)
        if sp["relocated"] == "copy":
            g = g.copy()
        g.data_location = _loc(sp["loc"])
    else:
        g = _make_grid(sp)
    for step in (sp or {}).get("cast", "").split("+"):
        if step == "uniform":
            g = g.to_uniform()
        elif step == "rectilinear":
            g = g.to_rectilinear()
    return g


def _make_grid(sp):
    if sp is None:
        return fm.NoGrid()
    t = sp["type"]
    if t == "nogrid":
        return fm.NoGrid(dim=sp.get("dim", 0))
    if t == "esri":
        return fm.EsriGrid(ncols=sp["ncols"], nrows=sp["nrows"], cellsize=sp["cellsize"], xllcorner=sp["xll"],
                           yllcorner=sp["yll"], order=sp["order"], crs=sp.get("crs"))
    if t == "uniform":
        return fm.UniformGrid(dims=sp["dims"], spacing=tuple(sp["spacing"]) + (1.0,) * (3 - len(sp["dims"])),
                              origin=tuple(sp["origin"]) + (0.0,) * (3 - len(sp["dims"])),
                              data_location=_loc(sp["loc"]), order=sp["order"], axes_reversed=sp["rev"],
                              axes_increase=sp["inc"], crs=sp.get("crs"))
    if t == "rectilinear":
        axes = [np.asarray(a if inc else a[::-1], dtype=float) for a, inc in zip(sp["axes"], sp["inc"])]
        return fm.RectilinearGrid(axes=axes, data_location=_loc(sp["loc"]), order=sp["order"], axes_reversed=sp["rev"],
                                  crs=sp.get("crs"))
    if t == "points":
        return fm.UnstructuredPoints(points=np.asarray(sp["points"], dtype=float), order=sp.get("order", "C"))
    if t == "unstructured":
        return fm.UnstructuredGrid(points=np.asarray(sp["points"], dtype=float), cells=np.asarray(sp["cells"]),
                                   cell_types=np.asarray(sp["cell_types"]), data_location=_loc(sp["loc"]),
                                   order=sp.get("order", "C"))
    raise ValueError(t)


# --------------------------------------------------------------------------- M-grid
class MGrid:
    """Own arithmetic for structured grids: which physical coordinate belongs to which multi-index
    of a data array in the grid's data shape."""

    def __init__(self, sp, loc=None):
        self.sp = sp
        if sp["type"] == "esri":
            self.axes = [sp["xll"] + sp["cellsize"] * np.arange(sp["ncols"] + 1),
                         sp["yll"] + sp["cellsize"] * np.arange(sp["nrows"] + 1)]
            self.rev, self.inc, self.order, self.loc = True, [True, False], sp["order"], "cells"
        elif sp["type"] == "uniform":
            self.axes = [o + s * np.arange(d) for d, s, o in zip(sp["dims"], sp["spacing"], sp["origin"])]
            self.rev, self.inc, self.order, self.loc = sp["rev"], list(sp["inc"]), sp["order"], sp["loc"]
        else:
            self.axes = [np.asarray(a, dtype=float) for a in sp["axes"]]
            self.rev, self.inc, self.order, self.loc = sp["rev"], list(sp["inc"]), sp["order"], sp["loc"]
        if loc is not None:
            self.loc = loc
        self.dim = len(self.axes)
        # a single-point axis cannot be 'decreasing'
        self.inc = [True if len(a) == 1 else i for a, i in zip(self.axes, self.inc)]

    def loc_axes(self):
        """coordinates of the data locations along each spatial axis (increasing)"""
        if self.loc == "points":
            return [a for a in self.axes]
        return [(a[:-1] + a[1:]) / 2 if len(a) > 1 else a for a in self.axes]

    def data_shape(self):
        n = [len(a) for a in self.loc_axes()]
        return tuple(n[::-1] if self.rev else n)

    def coord(self, idx):
        """physical coordinate (x[,y[,z]]) of the element at multi-index idx of the data array"""
        la = self.loc_axes()
        out = []
        for k in range(self.dim):
            j = self.dim - 1 - k if self.rev else k      # data axis that runs along spatial axis k
            i = idx[j]
            n = len(la[k])
            out.append(float(la[k][i] if self.inc[k] else la[k][n - 1 - i]))
        return tuple(out)

    def coords_array(self):
        """array of shape data_shape + (dim,) with the coordinate of every element"""
        shp = self.data_shape()
        out = np.empty(shp + (self.dim,), dtype=float)
        for idx in np.ndindex(*shp):
            out[idx] = self.coord(idx)
        return out

    def flat_points(self):
        """data locations in the order obtained by flattening the data array in the grid's order"""
        ca = self.coords_array()
        return ca.reshape((-1, self.dim), order=self.order) if self.order == "C" else \
            np.stack([ca[..., k].reshape(-1, order="F") for k in range(self.dim)], axis=1)

    def location_set(self):
        return {tuple(np.round(p, 9)) for p in self.flat_points()}

    def field(self, coef):
        """array in data shape filled with an affine function of the physical coordinate"""
        ca = self.coords_array()
        out = np.full(self.data_shape(), float(coef[0]))
        for k in range(self.dim):
            out = out + coef[k + 1] * ca[..., k]
        return out
