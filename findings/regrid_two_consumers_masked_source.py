"""Stand-alone reproduction of defect #23 (repaired by fix b7b432f): a regridding adapter with two consumers behind a
source that declares an explicit mask.  Before the fix connect failed with
ValueError: The truth value of an array with more than one element is ambiguous."""
from datetime import datetime

import numpy as np
import finam as fm
from finam.adapters.regrid import RegridNearest

t0 = datetime(2000, 1, 1)
g1 = fm.UniformGrid((4, 5))
g2 = fm.UniformGrid((7, 9), spacing=(0.5, 0.5, 0.5))
m = np.zeros(g1.data_shape, bool)
m[0, 0] = True
out = fm.Output(name="o", info=fm.Info(time=t0, grid=g1, units="m", mask=m))
ad = RegridNearest()
a = fm.Input(name="a", info=fm.Info(time=t0, grid=g2, units="m"))
b = fm.Input(name="b", info=fm.Info(time=t0, grid=g2, units="m"))
out >> ad >> a
ad >> b
a.ping()
b.ping()
a.exchange_info()
b.exchange_info()          # ValueError before the fix
out.push_data(np.ma.array(np.ones(g1.data_shape), mask=m), t0)
assert a.pull_data(t0).shape == b.pull_data(t0).shape == (1, 6, 8)
print("ok")
