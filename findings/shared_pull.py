#!/venv/bin/python
"""Stand-alone demonstration (public finam API only) of the one open known finding recorded in
/verif/known_findings.txt, in its two recorded shapes.  Not a check: it documents the failing histories.

    /venv/bin/python findings/shared_pull.py          # prints what finam does for both shapes

Root cause: a pull-based component (no time of its own, CallbackOutputs that pull the component's inputs
on demand) that is read through two or more consumer links forwards every request through its one
registered input per source.  Upstream, the source output and stateful adapters see ONE merged request
stream, while the driver checks each consumer link on its own.
"""
import sys
from datetime import datetime, timedelta

sys.path.insert(0, __import__("os").environ.get("FINAM_SRC", "/repo/src"))
import finam as fm  # noqa: E402

T0 = datetime(2000, 1, 1)
H = timedelta(hours=1)


class Source(fm.TimeComponent):
    def __init__(self, step):
        super().__init__()
        self.step = step * H
        self.time = T0

    def _next_time(self):
        return self.time + self.step

    def _initialize(self):
        self.outputs.add(name="o0", time=self.time, grid=fm.NoGrid(), units="")
        self.create_connector()

    def _connect(self, start_time):
        self.try_connect(start_time, push_data={"o0": 0.0})

    def _validate(self):
        pass

    def _update(self):
        self.time += self.step
        self.outputs["o0"].push_data((self.time - T0) / H, self.time)

    def _finalize(self):
        pass


class PullComp(fm.Component):
    """two outputs computed on demand from one input"""

    def _initialize(self):
        self.inputs.add(name="i0", time=T0, grid=fm.NoGrid(), units="")
        for n in ("o0", "o1"):
            self.outputs.add(fm.CallbackOutput(callback=self._provide, name=n, time=T0, grid=fm.NoGrid(), units=""))
        self.create_connector(pull_data=["i0"])

    def _provide(self, _caller, time):
        if self.status in (fm.ComponentStatus.VALIDATED, fm.ComponentStatus.UPDATED):
            return self.inputs["i0"].pull_data(time).magnitude + 0.0
        d = self.connector.in_data["i0"]
        return None if d is None else d.magnitude + 0.0

    def _connect(self, start_time):
        self.try_connect(start_time)

    def _validate(self):
        pass

    def _update(self):
        pass

    def _finalize(self):
        pass


class Consumer(fm.TimeComponent):
    def __init__(self, step, inputs, initial, with_output=False):
        super().__init__()
        self.step = step * H
        self.time = T0
        self.names = inputs
        self.initial = initial
        self.with_output = with_output

    def _next_time(self):
        return self.time + self.step

    def _initialize(self):
        for n in self.names:
            self.inputs.add(name=n, time=self.time, grid=fm.NoGrid(), units="")
        if self.with_output:
            self.outputs.add(name="o0", time=self.time, grid=fm.NoGrid(), units="")
        self.create_connector(pull_data=self.initial)

    def _connect(self, start_time):
        self.try_connect(start_time, push_data={"o0": 0.0} if self.with_output else {})

    def _validate(self):
        pass

    def _update(self):
        self.time += self.step
        for n in self.names:
            self.inputs[n].pull_data(self.time)
        if self.with_output:
            self.outputs["o0"].push_data((self.time - T0) / H, self.time)

    def _finalize(self):
        pass


def shape1():
    """merged stream goes backwards: requests t-1, t, t-1 reach the source, which evicted t-1 after t"""
    src, p, c = Source(1), PullComp(), Consumer(1, ["i0", "i1", "i2"], ["i0", "i1", "i2"])
    comp = fm.Composition([c, src, p])
    src.outputs["o0"] >> p.inputs["i0"]
    p.outputs["o0"] >> fm.adapters.DelayFixed(delay=1 * H) >> c.inputs["i0"]
    p.outputs["o0"] >> c.inputs["i1"]
    p.outputs["o1"] >> fm.adapters.DelayFixed(delay=1 * H) >> c.inputs["i2"]
    comp.run(end_time=T0 + 3 * H)


def shape2():
    """two links interleave in one pull-counting DelayToPull: the driver checks with the pull window before
    the update, the first pull of the update advances the window, the second is shifted later than checked"""
    src, p, c = Source(7), PullComp(), Consumer(4, ["i0", "i1"], ["i1"], with_output=True)
    d = Consumer(5, ["i0"], ["i0"])          # reads c and so makes the driver advance c twice before src
    comp = fm.Composition([d, src, c, p])
    c.outputs["o0"] >> d.inputs["i0"]
    src.outputs["o0"] >> fm.adapters.NextTime() >> fm.adapters.DelayToPull(steps=1, additional_delay=4 * H) >> p.inputs["i0"]
    p.outputs["o0"] >> fm.adapters.DelayFixed(delay=2 * H) >> c.inputs["i0"]
    p.outputs["o1"] >> c.inputs["i1"]
    comp.run(end_time=T0 + 9 * H)


if __name__ == "__main__":
    import logging
    logging.disable(logging.CRITICAL)
    for f in (shape1, shape2):
        try:
            f()
            print(f"{f.__name__}: run completed")
        except Exception as e:      # noqa: BLE001
            print(f"{f.__name__}: {type(e).__name__}: {e}")
