"""Stand-alone reproduction (public finam API, library components in their default configuration) of the open finding
`unset-time-fanout-first-target-decides` (C05).

A pull-based generator leaves the time of its output unset (SimplexNoise does by default).  Its output is read by a
WeightedSum input (which has no time either) and by a time-stepped consumer.  Output.get_info takes an unset time from
the FIRST target that exchanges its metadata: if that is the consumer, connect() succeeds; if it is the merger, connect()
fails with FinamMetaDataError - which of the two comes first is decided by the listing order alone.
exit 1 if the outcome depends on the listing order (the finding), exit 0 if it does not.
"""
import itertools
import sys
from datetime import datetime, timedelta

import finam as fm


def run(order):
    noise = fm.components.SimplexNoise(info=fm.Info(time=None, grid=fm.NoGrid(), units=""), seed=3)
    weight = fm.components.StaticSimplexNoise(info=fm.Info(time=None, grid=fm.NoGrid(), units=""), seed=5)
    ws = fm.components.WeightedSum(inputs=["A"])
    c1 = fm.components.DebugConsumer({"i": fm.Info(time=None, grid=fm.NoGrid(), units="")}, start=datetime(2000, 1, 1),
                                     step=timedelta(days=1))
    c2 = fm.components.DebugConsumer({"i": fm.Info(time=None, grid=fm.NoGrid(), units="")}, start=datetime(2000, 1, 1),
                                     step=timedelta(days=1))
    comps = [noise, weight, ws, c1, c2]
    comp = fm.Composition([comps[i] for i in order], print_log=False, log_level=50)
    noise.outputs["Noise"] >> ws.inputs["A"]
    weight.outputs["Noise"] >> ws.inputs["A_weight"]
    ws.outputs["WeightedSum"] >> c1.inputs["i"]
    noise.outputs["Noise"] >> c2.inputs["i"]
    try:
        comp.run(start_time=datetime(2000, 1, 1), end_time=datetime(2000, 1, 4))
        return "ok"
    except Exception as e:      # noqa: BLE001
        return f"{type(e).__name__}: {str(e)[:80]}"


outcomes = {}
for order in itertools.permutations(range(5)):
    outcomes.setdefault(run(order), []).append(order)
for k, v in outcomes.items():
    print(f"{len(v):3d} listing orders -> {k}")
sys.exit(1 if len(outcomes) > 1 else 0)
