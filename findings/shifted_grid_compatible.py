"""Stand-alone reproduction (public finam API) of defect #22: grids shifted by whole cells were reported compatible.

StructuredGrid.compatible_with compared the axes with numpy's default relative tolerance (1e-5 of the coordinate
magnitude).  With projected coordinates (UTM: 4e5 / 5.5e6) and 25 m cells a grid shifted by one cell differs by 4.5e-6
relative - "compatible" and even "equal", so a link between the two was accepted and data delivered 25 m off without
any regridding.  exit 0: the shifted grid is refused; exit 1 otherwise.
"""
import sys
from datetime import datetime

import numpy as np

import finam as fm

a = fm.UniformGrid((10, 10), spacing=(25.0, 25.0, 0.0), origin=(400000.0, 5500000.0, 0.0))
b = fm.UniformGrid((10, 10), spacing=(25.0, 25.0, 0.0), origin=(400000.0, 5500025.0, 0.0))
same = fm.UniformGrid((10, 10), spacing=(25.0, 25.0, 0.0), origin=(400000.0, 5500000.0, 0.0), axes_increase=[True, False])
ok = True
if a.compatible_with(b) or a == b:
    print("C15 VIOLATED: a grid shifted by one cell (25 m) is reported compatible/equal")
    ok = False
if not a.compatible_with(same):
    print("C15 VIOLATED: another layout of the same grid is reported incompatible")
    ok = False
out = fm.Output(name="o", info=fm.Info(time=datetime(2000, 1, 1), grid=a, units="m"))
inp = fm.Input(name="i", info=fm.Info(time=datetime(2000, 1, 1), grid=b, units="m"))
out >> inp
inp.ping()
try:
    inp.exchange_info()
    print("C07/C15 VIOLATED: the link between the two grids was accepted")
    ok = False
except fm.errors.FinamMetaDataError:
    pass
print("ok" if ok else "FAILED")
sys.exit(0 if ok else 1)
