"""Stand-alone reproduction (public finam API only) of defect #20: a component that reports FINISHED.

A CsvReader whose file ends before the end time of the run, read only by a push-based consumer ("read all of it").
Before the fix `Component.update()` overwrote the FINISHED status the reader sets after its last row, the run loop
advanced the reader once more and run() died with IndexError instead of returning.
exit 0: run() returns and the consumer saw every row; exit 1 otherwise.
"""
import os
import sys
import tempfile
from datetime import datetime

import finam as fm

with tempfile.TemporaryDirectory() as d:
    path = os.path.join(d, "in.csv")
    with open(path, "w") as f:
        f.write("T;x\n2000-01-01T00:00:00;1.0\n2000-01-02T00:00:00;2.0\n2000-01-03T00:00:00;3.0\n")
    reader = fm.components.CsvReader(path=path, time_column="T", outputs={"x": ""})
    seen = []
    sink = fm.components.DebugPushConsumer({"x": fm.Info(time=None, grid=fm.NoGrid(), units="")},
                                           callbacks={"x": lambda n, data, t: seen.append((t, float(data.magnitude.reshape(-1)[0])))})
    comp = fm.Composition([reader, sink], print_log=False, log_level=50)
    reader.outputs["x"] >> sink.inputs["x"]
    try:
        comp.run(start_time=datetime(2000, 1, 1), end_time=datetime(2000, 1, 10))
    except Exception as e:      # noqa: BLE001
        print(f"C03 VIOLATED: run() raised {type(e).__name__}: {e}")
        sys.exit(1)
    vals = [v for _, v in seen]
    print("run() returned; reader status", reader.status, "values seen", vals)
    sys.exit(0 if reader.status == fm.ComponentStatus.FINALIZED and vals[-1] == 3.0 else 1)
