#!/venv/bin/python
"""Reach probe: which lines of finam do the checks' scenarios execute?

    tools/coverage_probe.py [N runs per check] [IDs...]      (default 150 runs of every check, quick tier)

Not a check and not evidence of correctness: it lists, per finam source file, the lines that NO scenario of the sampled
runs executed, so that blind spots of the generators (usage patterns never produced) can be found by reading them.
Writes selftest/coverage_probe.json.
"""
import importlib
import json
import os
import sys

ROOT = os.path.dirname(os.path.dirname(os.path.abspath(__file__)))
sys.path.insert(0, ROOT)
os.environ.setdefault("PYTHONHASHSEED", "0")
import coverage  # noqa: E402

n = int(sys.argv[1]) if len(sys.argv) > 1 and sys.argv[1].isdigit() else 150
ids = [a for a in sys.argv[1:] if not a.isdigit()] or [f"C{i:02d}" for i in range(1, 21)]
src = os.path.join(os.environ.get("FINAM_SRC", "/repo/src"), "finam")
cov = coverage.Coverage(source=[src], data_file=None, branch=False)
cov.start()
from sim import bootstrap, core  # noqa: E402,F401

per_check = {}
for cid in ids:
    mod = importlib.import_module(f"sim.checks.{cid.lower()}")
    done = 0
    for s in range(n):
        try:
            sc = core.guarded_generate(mod, core.Tape(1_000_003 * 7 + s), "quick")
            core.guarded_execute(mod, sc)
            done += 1
        except Exception as e:      # noqa: BLE001
            print(cid, s, type(e).__name__, str(e)[:100])
    per_check[cid] = done
cov.stop()
out = {"runs_per_check": per_check, "files": {}}
tot_l = tot_m = 0
for f in sorted(cov.get_data().measured_files()):
    rel = os.path.relpath(f, src)
    _, stmts, _, missing, _ = cov.analysis2(f)
    out["files"][rel] = {"statements": len(stmts), "missing": missing}
    tot_l += len(stmts)
    tot_m += len(missing)
    if stmts:
        print(f"{rel:40s} {len(stmts) - len(missing):5d}/{len(stmts):5d}  missing {len(missing)}")
print(f"TOTAL {tot_l - tot_m}/{tot_l}")
json.dump(out, open(os.path.join(ROOT, "selftest", "coverage_probe.json"), "w"), indent=1)
