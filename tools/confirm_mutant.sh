#!/bin/bash
# usage: tools/confirm_mutant.sh <worktree> <seeded-name>
# confirms in the scratch worktree: demo passes without / fails with the change, 284 baseline tests pass with it
set -u
wt="$1"; name="$2"
cd "$wt" || exit 9
export PYTHONPATH="$wt/src"
git diff -- src > /tmp/confirm-$name.diff
[ -s /tmp/confirm-$name.diff ] || { cp patch.diff /tmp/confirm-$name.diff; git apply patch.diff || exit 9; }
timeout 300 /venv/bin/python demo.py > /tmp/confirm-$name.with.out 2>&1; with=$?
git checkout -q -- src
timeout 300 /venv/bin/python demo.py > /tmp/confirm-$name.without.out 2>&1; without=$?
git apply /tmp/confirm-$name.diff || exit 9
timeout 1500 /venv/bin/python -m pytest -q -p no:cacheprovider --timeout=900 --continue-on-collection-errors --junitxml=/tmp/confirm-$name.junit.xml > /tmp/confirm-$name.pytest.out 2>&1
/venv/bin/python - "$name" <<'PY'
import json, sys, xml.etree.ElementTree as ET
name = sys.argv[1]
base = set(json.load(open('/root/.vp/BASELINE.json'))['stable_pass'])
passed = set()
for tc in ET.parse(f'/tmp/confirm-{name}.junit.xml').getroot().iter('testcase'):
    if not any(ch.tag in ('failure', 'error', 'skipped') for ch in tc):
        passed.add(f"{tc.get('classname')}::{tc.get('name')}")
missing = sorted(base - passed)
print(f"baseline tests passing with the change: {len(base & passed)}/{len(base)}; missing: {missing[:5]}")
open(f'/tmp/confirm-{name}.tests.txt', 'w').write(f"{len(base & passed)}/{len(base)} baseline tests pass with the change applied; missing={missing}\n")
PY
echo "demo with change: exit $with (expect != 0); without: exit $without (expect 0)"
mkdir -p /verif/seeded/$name
cp /tmp/confirm-$name.diff /verif/seeded/$name/patch.diff
cp demo.py /verif/seeded/$name/demo.py
cp meta.json /verif/seeded/$name/agent_meta.json 2>/dev/null
echo "demo_with_change_exit=$with demo_without_change_exit=$without" > /verif/seeded/$name/confirm.txt
cat /tmp/confirm-$name.tests.txt >> /verif/seeded/$name/confirm.txt
tail -3 /tmp/confirm-$name.with.out >> /verif/seeded/$name/confirm.txt
