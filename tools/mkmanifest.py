#!/venv/bin/python
"""Regenerate /verif/MANIFEST.json from the check modules that exist."""
import importlib
import json
import os
import sys

ROOT = os.path.dirname(os.path.dirname(os.path.abspath(__file__)))
sys.path.insert(0, ROOT)
os.environ.setdefault("PYTHONHASHSEED", "0")

PROPS = [json.loads(l) for l in open(os.path.join(ROOT, "properties.jsonl"))]
BASELINE = ("cd /repo && /venv/bin/python -m pytest -ra -q -p no:cacheprovider --timeout=900 "
            "--continue-on-collection-errors --junitxml=/tmp/finam-baseline.junit.xml")

NOT_APPLICABLE = {}


def main():
    checks = []
    na = []
    engines = {}
    for p in PROPS:
        pid = p["id"]
        modname = pid.lower()
        path = os.path.join(ROOT, "sim", "checks", modname + ".py")
        if not os.path.exists(path):
            na.append({"property_id": pid, "reason": NOT_APPLICABLE.get(
                pid, "check not built yet in this session (see DESIGN.md section 3 for the plan)")})
            continue
        mod = importlib.import_module(f"sim.checks.{modname}")
        eng = getattr(mod, "ENGINE", "E1")
        engines.setdefault(eng, []).append(pid)
        checks.append({
            "property_id": pid,
            "quick_cmd": f"./check {pid} --tier quick",
            "thorough_cmd": f"./check {pid} --tier thorough",
            "evidence_file": f"/verif/evidence/{pid}.json",
            "replay_cmd_template": f"./check {pid} --replay {{path}}",
            "engine": eng,
            "level_claimed": {"category": mod.LEVEL,
                              "text": getattr(mod, "LEVEL_TEXT", "seeded search over schedules, configurations and fault sequences "
                                              "of a deterministic in-process simulation; a clean batch is evidence, not proof"),
                              "design_ref": f"DESIGN.md section 3, {pid}"},
            "level_note": getattr(mod, "LEVEL_NOTE", "trusted base: Python, numpy/pint/scipy, the stub components and the "
                                  "reference models under /verif/sim; assumptions: " + "; ".join(getattr(mod, "ASSUMPTIONS", []))),
            "technique": getattr(mod, "TECHNIQUE", "deterministic simulation with fault injection: seeded schedule/"
                                 "configuration/fault search against an executable reference model"),
        })
    man = {
        "version": 1,
        "setup_cmd": "/venv/bin/python -c \"import sys; sys.path.insert(0, '/verif'); import sim.bootstrap\"",
        "hooks": {
            "guard": "FINAM_VERIF_SIM",
            "enable": "no source hook exists: instrumentation is installed from /verif/sim/instrument.py by wrapping "
                      "public finam classes at import time; FINAM_VERIF_SIM=1 is exported by sim/bootstrap.py for "
                      "future guarded hooks",
            "baseline_off_cmd": BASELINE,
            "source_commits": [],
            "add_only": True,
        },
        "engines": [
            {"name": "E1", "path": "sim/world.py + sim/monitor.py",
             "serves_properties": sorted(engines.get("E1", [])),
             "kind_free_text": "composition simulator: real Composition/Input/Output/adapters driven by scenario-determined stub components"},
            {"name": "E2", "path": "sim/connect.py", "serves_properties": sorted(engines.get("E2", [])),
             "kind_free_text": "connect-protocol simulator with a seeded scheduler of component.connect() calls"},
            {"name": "E3", "path": "sim/link.py", "serves_properties": sorted(engines.get("E3", [])),
             "kind_free_text": "link simulator: seeded interleavings of push / per-consumer pull events on one real link"},
        ],
        "checks": checks,
        "not_applicable": na,
        "notes": "All checks: ./check <ID> --tier quick|thorough, VERIF_SEED selects the batch. "
                 "Known findings in /verif/known_findings.txt; fixes to /repo are 'fix:' commits (see DESIGN.md).",
    }
    with open(os.path.join(ROOT, "MANIFEST.json"), "w") as f:
        json.dump(man, f, indent=1)
    print(f"MANIFEST.json: {len(checks)} checks, {len(na)} not claimed")


if __name__ == "__main__":
    main()
