#!/bin/bash
# Re-base every seeded patch on /repo's current tree (later fix: commits may have moved the context).
# A patch that no longer applies cleanly is re-applied with fuzz in a scratch copy and regenerated; the original is kept
# as patch.orig.diff.
for d in /verif/seeded/*/; do
  n=$(basename $d)
  s=/dev/shm/finam-refresh-$$
  rm -rf $s; mkdir -p $s; cp -r /repo/src $s/src
  ( cd $s && git init -q . && git add -A && git -c user.email=a@b -c user.name=x commit -qm base ) >/dev/null 2>&1
  if ( cd $s && git apply $d/patch.diff ) 2>/dev/null; then
    echo "$n: applies cleanly"
  elif ( cd $s && patch -p1 -F3 --no-backup-if-mismatch < $d/patch.diff ) >/dev/null 2>&1; then
    [ -f $d/patch.orig.diff ] || cp $d/patch.diff $d/patch.orig.diff
    ( cd $s && git diff -- src > $d/patch.diff )
    echo "$n: re-based with fuzz"
  else
    echo "$n: DOES NOT APPLY"
  fi
  rm -rf $s
done
