#!/bin/bash
# usage: tools/try_mutant.sh <patch.diff> <ID> [<ID> ...]   - apply to /repo, run quick checks, revert
set -u
patch="$1"; shift
cd /repo || exit 9
if ! git diff --quiet; then echo "/repo has uncommitted changes"; exit 9; fi
git apply "$patch" || { echo "patch does not apply"; exit 9; }
trap 'git -C /repo checkout -- . ' EXIT
cd /verif
for id in "$@"; do
  VERIF_WALL=${VERIF_WALL:-90} ./check "$id" --tier quick > /tmp/mut-$id.out 2>&1
  rc=$?
  echo "== $id exit=$rc"
  grep -E "^  violation|^VIOLATION|HARNESS" /tmp/mut-$id.out | cut -c1-260 | head -6
done
