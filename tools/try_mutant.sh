#!/bin/bash
# usage: tools/try_mutant.sh <patch.diff> <ID> [<ID> ...]
# applies the patch to a scratch copy of /repo's current tree (FINAM_SRC), runs the quick checks, removes the copy.
# (equivalent to `git -C /repo apply` + checks + `git -C /repo checkout -- .`, but safe while other runs use /repo)
set -u
patch="$(realpath "$1")"; shift
d=/dev/shm/finam-try-$$
mkdir -p $d && cp -r /repo/src $d/src && cp /repo/.gitignore $d/ 2>/dev/null
( cd $d && git init -q . && git apply "$patch" ) || { echo "patch does not apply"; rm -rf $d; exit 9; }
cd /verif
for id in "$@"; do
  FINAM_SRC=$d/src VERIF_WALL=${VERIF_WALL:-90} timeout 600 ./check "$id" --tier quick > /tmp/mut-$id-$$.out 2>&1
  rc=$?
  echo "== $id exit=$rc"
  grep -E "^  violation|^VIOLATION|HARNESS" /tmp/mut-$id-$$.out | cut -c1-260 | head -6
done
rm -rf $d
