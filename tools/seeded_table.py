#!/venv/bin/python
"""Rewrite the table of seeded changes in DESIGN.md (between the SEEDED-TABLE markers) from seeded/*/meta.json and
selftest/kill_matrix.json."""
import glob, json, os, re
ROOT = os.path.dirname(os.path.dirname(os.path.abspath(__file__)))
km = {}
p = os.path.join(ROOT, "selftest", "kill_matrix.json")
if os.path.exists(p):
    km = json.load(open(p))
rows = ["| seeded change | property | caught by (quick tier) | what it needed / note |", "|---|---|---|---|"]
for d in sorted(glob.glob(os.path.join(ROOT, "seeded", "*"))):
    n = os.path.basename(d)
    mp = os.path.join(d, "meta.json")
    if not os.path.exists(mp):
        continue
    m = json.load(open(mp))
    note = (m.get("detection") or "").replace("|", "/")
    k = km.get(n)
    if k is not None and not k.get("killed"):
        note = "**NOT caught in the last kill-matrix run** - " + note
    rows.append(f"| {n} | {m['property']} | {', '.join(m.get('detected_by_quick_checks', []))} | {note} |")
table = "\n".join(rows)
dp = os.path.join(ROOT, "DESIGN.md")
s = open(dp).read()
b, e = "<!-- SEEDED-TABLE-BEGIN -->", "<!-- SEEDED-TABLE-END -->"
if b in s:
    s = s[:s.index(b) + len(b)] + "\n" + table + "\n" + s[s.index(e):]
else:
    # first time: replace the hand-written table
    i = s.index("| seeded change | property | caught by (quick) | note |")
    j = s.index("Own textual mutations")
    s = s[:i] + b + "\n" + table + "\n" + e + "\n\n" + s[j:]
open(dp, "w").write(s)
print(len(rows) - 2, "seeded changes listed")
