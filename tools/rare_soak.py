#!/venv/bin/python
"""Soak of the RARE scenario families only: for every check, walk over seeds far away from the ones the tiers use, keep the
scenarios that belong to a rare family (long / large histories, shared objects, ...) and execute just those - a few
hundred per check instead of the handful a quick run sees.  Any violation here on the unchanged tree is either a defect
of finam or a false alarm of the machinery and has to be looked at before anything else.

usage: tools/rare_soak.py [--base N] [--want N] [--wall S] [IDs...]
"""
import argparse
import os
import sys
import time

HERE = os.path.dirname(os.path.abspath(__file__))
sys.path.insert(0, os.path.dirname(HERE))
if os.environ.get("PYTHONHASHSEED") is None:
    os.environ["PYTHONHASHSEED"] = "0"
    os.execv(sys.executable, [sys.executable] + sys.argv)

from concurrent.futures import ProcessPoolExecutor  # noqa: E402
import multiprocessing as mp  # noqa: E402

from sim import core  # noqa: E402


def npush(sc):
    return sum(1 for e in sc.get("events", []) if e and e[0] == "PUSH")


RARE = {
    "c01": lambda sc: sc.get("long") or sc.get("engine") == "SH" or sc.get("end", 0) > 300,
    "c02": lambda sc: sc.get("long") or sc.get("end", 0) > 300,
    "c03": lambda sc: sc.get("long") or sc.get("end", 0) > 300,
    "c04": lambda sc: any("shared_with" in l for l in sc.get("links", [])),
    "c05": lambda sc: sc.get("long"),
    "c06": lambda sc: sc.get("long_chain") or sc.get("engine") == "SH",
    "c07": lambda sc: sc.get("warm") or sc.get("engine") == "SH" or (sc.get("helper") and len(sc.get("cons", [])) >= 2),
    "c08": lambda sc: sc.get("engine") == "SH" or len(sc.get("events", [])) > 100,
    "c09": lambda sc: len(sc.get("events", [])) > 300,
    "c10": lambda sc: npush(sc) > 256 or sc.get("fresh_location"),
    "c11": lambda sc: npush(sc) > 80,
    "c12": lambda sc: npush(sc) >= 45 or any(c.get("bystander") for c in sc.get("consumers", [])),
    "c13": lambda sc: len(sc.get("events", [])) > 300 or sc.get("end", 0) > 300,
    "c14": lambda sc: max(sc.get("grid", {}).get("dims", [0]) or [0]) > 60,
    "c15": lambda sc: max(sc.get("a", {}).get("dims", [0]) or [0]) > 2000 or sc.get("copy_twin"),
    "c16": lambda sc: sc.get("crs_pair") or sc.get("fanout_at_adapter") or sc.get("twin_target"),
    "c17": lambda sc: sc.get("long_history") or sc.get("engine") == "SH",
    "c18": lambda sc: sc.get("info_reuse") or max((sc.get("a") or {}).get("dims", [0]) or [0]) > 30,
    "c19": lambda sc: sc.get("long_series") or sc.get("retry"),
    "c20": lambda sc: sc.get("engine") == "SH" or sc.get("end", 0) > 300,
}


STRICT = {
    "c01": lambda sc: sc.get("long"), "c02": lambda sc: sc.get("long"), "c03": lambda sc: sc.get("long"),
    "c05": lambda sc: sc.get("long"), "c06": lambda sc: sc.get("long_chain"), "c07": lambda sc: sc.get("warm"),
    "c08": lambda sc: len(sc.get("events", [])) > 100, "c09": lambda sc: len(sc.get("events", [])) > 300,
    "c10": lambda sc: npush(sc) > 256, "c11": lambda sc: npush(sc) > 80, "c12": lambda sc: npush(sc) >= 45,
    "c13": lambda sc: len(sc.get("events", [])) > 300 or sc.get("end", 0) > 300,
    "c14": RARE["c14"], "c15": lambda sc: max(sc.get("a", {}).get("dims", [0]) or [0]) > 2000,
    "c16": lambda sc: sc.get("crs_pair"), "c17": lambda sc: sc.get("long_history"),
    "c18": lambda sc: max((sc.get("a") or {}).get("dims", [0]) or [0]) > 30, "c19": lambda sc: sc.get("long_series"),
    "c20": lambda sc: sc.get("engine") == "SH" or sc.get("end", 0) > 300, "c04": RARE["c04"],
}


def work(args):
    modname, seeds, want, wall = args
    mod = core._load(modname)
    t0 = time.time()
    n = nv = 0
    out = []
    for s in seeds:
        if n >= want or time.time() - t0 > wall:
            break
        try:
            sc = core.guarded_generate(mod, core.Tape(seed=s), "quick")
        except Exception as e:      # noqa: BLE001
            out.append((s, "generate", repr(e)[:200]))
            continue
        if not isinstance(sc, dict) or not RARE[modname](sc):
            continue
        n += 1
        res = core.guarded_execute(mod, sc)
        if res.get("harness"):
            out.append((s, "HARNESS", str(res["harness"])[-400:]))
        known = getattr(mod, "known_sig", None)
        for v in res["violations"]:
            if known and known(sc, v) is not None:
                continue
            nv += 1
            out.append((s, v["oracle"], str(v.get("msg", ""))[:400]))
    core._rm_own_scratch()
    return modname, n, out


def main():
    ap = argparse.ArgumentParser()
    ap.add_argument("ids", nargs="*")
    ap.add_argument("--base", type=int, default=7_000_000)
    ap.add_argument("--want", type=int, default=40)
    ap.add_argument("--wall", type=int, default=120)
    ap.add_argument("--procs", type=int, default=8)
    ap.add_argument("--strict", action="store_true", help="only the rarest families (long / large)")
    a = ap.parse_args()
    ids = [i.lower() for i in a.ids] or sorted(RARE)
    if a.strict:
        RARE.update(STRICT)
    jobs = []
    for m in ids:
        for k in range(a.procs):
            lo = a.base + k * 200_000
            jobs.append((m, range(lo, lo + 200_000), a.want, a.wall))
    tot = {}
    bad = 0
    with ProcessPoolExecutor(max_workers=a.procs, mp_context=mp.get_context("fork")) as ex:
        for modname, n, out in ex.map(work, jobs):
            tot[modname] = tot.get(modname, 0) + n
            for (s, o, msg) in out:
                bad += 1
                print(f"{modname.upper()} seed={s} {o}: {msg}", flush=True)
    print("rare scenarios executed:", {k.upper(): v for k, v in sorted(tot.items())})
    sys.exit(1 if bad else 0)


if __name__ == "__main__":
    main()
