#!/bin/bash
# usage: tools/soak.sh <first seed> <last seed> [IDs...]  - quick tier of every check for a range of VERIF_SEED values
cd "$(dirname "$0")/.."
a=$1; b=$2; shift 2
IDS=${@:-C01 C02 C03 C04 C05 C06 C07 C08 C09 C10 C11 C12 C13 C14 C15 C16 C17 C18 C19 C20}
for s in $(seq $a $b); do
  for id in $IDS; do
    VERIF_SEED=$s timeout 600 ./check $id --tier ${TIER:-quick} > /tmp/soak-$id-$s.out 2>&1
    rc=$?
    if [ $rc -ne 0 ]; then echo "seed $s $id exit=$rc"; grep -E "^  violation|HARNESS" /tmp/soak-$id-$s.out | cut -c1-300 | head -3; fi
  done
  echo "seed $s done"
done
