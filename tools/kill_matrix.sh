#!/bin/bash
# runs every seeded change against the quick check of its own property; writes selftest/kill_matrix.json
cd /verif
out=selftest/kill_matrix${VERIF_SEED:+_seed$VERIF_SEED}.json
echo "{" > $out.tmp
first=1
for d in seeded/*/; do
  n=$(basename $d); id=${n%%-*}; [ "$n" = "C17-prepare-relabels-under-fixed-mask" ] && id=C18
  res=$(tools/try_mutant.sh $d/patch.diff $id 2>&1 | grep "^== " | head -1)
  rc=$(echo "$res" | sed -E 's/.*exit=([0-9]+).*/\1/')
  [ $first = 1 ] || echo "," >> $out.tmp; first=0
  printf ' "%s": {"check": "%s", "quick_exit": %s, "killed": %s}' "$n" "$id" "${rc:-null}" "$([ "$rc" = 1 ] && echo true || echo false)" >> $out.tmp
  echo "$n $res"
done
echo "" >> $out.tmp; echo "}" >> $out.tmp; mv $out.tmp $out
