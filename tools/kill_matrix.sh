#!/bin/bash
# runs every seeded change against the quick check that is recorded as catching it (first entry of detected_by_quick_checks
# in its meta.json; normally its own property's - a few changes are caught by the check of a neighbouring property, see
# DESIGN.md section 11); writes selftest/kill_matrix[_seed<N>].json.   usage: tools/kill_matrix.sh [lanes]
cd /verif
lanes=${1:-3}
out=selftest/kill_matrix${VERIF_SEED:+_seed$VERIF_SEED}.json
tmp=$(mktemp -d /dev/shm/kill-XXXX)
ls -d seeded/*/ | sed 's#seeded/##; s#/##' > $tmp/all
split -n l/$lanes -d $tmp/all $tmp/lane
for f in $tmp/lane*; do
  (
    while read n; do
      grep -q '"neutralised_by"' seeded/$n/meta.json 2>/dev/null && continue     # no longer a behaviour change (see its meta.json)
      id=$(/venv/bin/python -c "import json,sys; print(json.load(open(sys.argv[1]))['detected_by_quick_checks'][0])" seeded/$n/meta.json 2>/dev/null || echo ${n%%-*})
      # first a third of the quick budget without minimisation; the full quick check only if that did not catch it
      res=$(VERIF_FAST_REPORT=1 VERIF_RUNS=${KILL_RUNS:-2000} VERIF_WORKERS=${VERIF_WORKERS:-8} tools/try_mutant.sh seeded/$n/patch.diff $id 2>&1 | grep "^== " | head -1)
      rc=$(echo "$res" | sed -E 's/.*exit=([0-9]+).*/\1/')
      if [ "$rc" != 1 ]; then
        res=$(VERIF_FAST_REPORT=1 VERIF_WORKERS=${VERIF_WORKERS:-8} tools/try_mutant.sh seeded/$n/patch.diff $id 2>&1 | grep "^== " | head -1)
        rc=$(echo "$res" | sed -E 's/.*exit=([0-9]+).*/\1/')
      fi
      printf ' "%s": {"check": "%s", "quick_exit": %s, "killed": %s}\n' "$n" "$id" "${rc:-null}" "$([ "$rc" = 1 ] && echo true || echo false)" >> $f.out
      echo "$n $res"
    done < $f
  ) &
done
wait
{ echo "{"; cat $tmp/lane*.out | sort | sed '$!s/$/,/'; echo "}"; } > $out
rm -rf $tmp
