#!/bin/bash
# runs every seeded change against the quick check that is recorded as catching it; writes selftest/kill_matrix.json
cd /verif
out=selftest/kill_matrix${VERIF_SEED:+_seed$VERIF_SEED}.json
echo "{" > $out.tmp
first=1
for d in seeded/*/; do
  n=$(basename $d)
  # the check named first in the seeded change's meta.json (normally its own property's; a few changes are caught by
  # the check of a neighbouring property, see DESIGN.md section 11)
  id=$(/venv/bin/python -c "import json,sys; print(json.load(open(sys.argv[1]))['detected_by_quick_checks'][0])" $d/meta.json 2>/dev/null || echo ${n%%-*})
  res=$(tools/try_mutant.sh $d/patch.diff $id 2>&1 | grep "^== " | head -1)
  rc=$(echo "$res" | sed -E 's/.*exit=([0-9]+).*/\1/')
  [ $first = 1 ] || echo "," >> $out.tmp; first=0
  printf ' "%s": {"check": "%s", "quick_exit": %s, "killed": %s}' "$n" "$id" "${rc:-null}" "$([ "$rc" = 1 ] && echo true || echo false)" >> $out.tmp
  echo "$n $res"
done
echo "" >> $out.tmp; echo "}" >> $out.tmp; mv $out.tmp $out
