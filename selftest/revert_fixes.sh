#!/bin/bash
# For every "fix:" commit in /repo: revert it in a scratch copy of the current tree and run the quick check of the property
# it was found by - the violation must come back (a fixed entry in known_findings.txt suppresses nothing).
cd /verif
declare -A MAP=( [e9af902]=C02 [9b932f9]=C01 [897d5ab]=C04 [6288173]=C04 [c5e5ccd]=C06 [6a7e771]=C20 [0914c02]=C14
                 [8f6f1dc]=C15 [ab1f04a]=C18 [0be12ad]=C18 [81107ec]=C06 [a343286]=C10 [daba0ca]=C10 [8798603]=C10 [7ad3c6d]=C10 [321bc34]=C08 [9f48263]=C07 [6a8a829]=C07 [45de43d]=C03 [b7c2694]=C15 [b7b432f]=C16 )
rc=0
for h in e9af902 9b932f9 897d5ab 6288173 c5e5ccd 6a7e771 0914c02 8f6f1dc ab1f04a 0be12ad 81107ec a343286 daba0ca 8798603 7ad3c6d 321bc34 9f48263 6a8a829 45de43d b7c2694 b7b432f; do
  id=${MAP[$h]}
  d=/dev/shm/finam-revert-$$; rm -rf $d; mkdir -p $d; cp -r /repo/src $d/src
  git -C /repo diff $h^ $h > $d/fix.diff
  if ! ( cd $d && patch -R -p1 -F3 --no-backup-if-mismatch < fix.diff > /dev/null 2>&1 ); then echo "$h ($id): revert does not apply"; rm -rf $d; continue; fi
  FINAM_SRC=$d/src VERIF_WALL=90 timeout 600 ./check $id --tier quick > /tmp/revert-$h.out 2>&1
  r=$?
  echo "$h reverted -> $id exit=$r  $(grep -E '^  violation' /tmp/revert-$h.out | head -1 | cut -c1-140)"
  [ $r -eq 1 ] || rc=1
  rm -rf $d
done
exit $rc
