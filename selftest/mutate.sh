#!/bin/bash
# usage: selftest/mutate.sh <relative file under src/finam> <python-regex> <replacement> <ID> [<ID>...]
# applies one textual mutation to a scratch copy of /repo/src (FINAM_SRC), runs the quick checks, removes the copy
set -u
f="$1"; pat="$2"; rep="$3"; shift 3
d=/dev/shm/finam-mut-$$
mkdir -p $d && cp -r /repo/src $d/src
/venv/bin/python - "$d/src/finam/$f" "$pat" "$rep" <<'PY'
import re, sys
p, pat, rep = sys.argv[1:4]
s = open(p).read()
n = len(re.findall(pat, s))
if n != 1:
    print(f"pattern matches {n} times, need exactly 1"); sys.exit(3)
open(p, "w").write(re.sub(pat, rep, s))
PY
rc=$?
if [ $rc -ne 0 ]; then rm -rf $d; exit $rc; fi
cd /verif
for id in "$@"; do
  FINAM_SRC=$d/src VERIF_WALL=60 ./check "$id" --tier quick > /tmp/selfmut-$id.out 2>&1
  echo "   $id exit=$? $(grep -E '^  violation' /tmp/selfmut-$id.out | head -1 | cut -c1-160)"
done
rm -rf $d
