#!/venv/bin/python
"""Hand-computed cases for the reference models (sim/model.py, sim/grids.py): the oracles are checked against numbers
worked out on paper (and against the documented examples of finam's adapters), independently of finam's code."""
import os, sys
sys.path.insert(0, os.path.dirname(os.path.dirname(os.path.abspath(__file__))))
from fractions import Fraction as Fr
from sim.model import LinkModel, nearest, ModelRefuse, integral, weighted_sum_abs, convert, close
from sim.grids import MGrid
import numpy as np

ok = 0


def eq(a, b, what):
    global ok
    assert (close(a, b) if isinstance(a, float) else a == b), f"{what}: {a} != {b}"
    ok += 1


pubs = [(0, 0.0), (24, 1.0), (48, 2.0), (72, 3.0)]      # daily series, value = day number (ticks are hours)
# nearest publication, either neighbour exactly midway, refusals outside
eq(nearest(pubs, 10), (0.0,), "nearest before midpoint")
eq(nearest(pubs, 13), (1.0,), "nearest after midpoint")
eq(set(nearest(pubs, 12)), {0.0, 1.0}, "midpoint: either")
for t, kind in ((-1, "past"), (73, "future")):
    try:
        nearest(pubs, t); raise AssertionError("no refusal")
    except ModelRefuse as e:
        eq(e.kind, kind, "range refusal")


def link(chain, init=0):
    return LinkModel(chain, init, source_pubs=lambda upto: pubs, now_newest=lambda: pubs[-1][0])


# interpolation adapters
eq(link([{"kind": "linear"}]).pull(36), (1.5,), "linear at 1.5 d")
eq(link([{"kind": "next"}]).pull(25), (2.0,), "next")
eq(link([{"kind": "prev"}]).pull(47), (1.0,), "previous")
eq(link([{"kind": "step", "p": "1/4"}]).pull(30), (1.0,), "step 0.25 at dt=0.25 -> old")      # dt == step -> old value
eq(link([{"kind": "step", "p": "1/4"}]).pull(31), (2.0,), "step 0.25 just after -> new")
eq(link([{"kind": "step", "p": "1"}]).pull(48), (2.0,), "published value exactly at publication times")
# integration adapters: finam's documented examples (tests/adapters/test_time_integration.py)
avg = link([{"kind": "avg", "p": None}])
eq(avg.pull(0), (0.0,), "avg initial")
eq(avg.pull(12), (0.25,), "avg 0..0.5 d of the linear ramp")
eq(avg.pull(24), (0.75,), "avg 0.5..1 d")
eq(avg.pull(72), (2.0,), "avg 1..3 d")
s = link([{"kind": "sum", "p": "0", "per_time": True, "init": 0}])
eq(s.pull(0), (0.0,), "sum initial, zero initial interval")
eq(s.pull(48), ((1.0 + 2.0) * 86400,), "per-time sum with step 0 (new value over each interval) in value*s")
s2 = link([{"kind": "sum", "p": None, "per_time": False}])
s2.pull(0)
eq(s2.pull(36), (0.5 + 0.5 * 0.5 * (1.0 + 1.5),), "absolute sum: fraction-of-interval weights of the trapezoid")
eq(integral([(0, 0.0), (10, 10.0)], 2, 4, None), 6.0, "trapezoid")
eq(integral([(0, 1.0), (10, 3.0)], 0, 10, Fr(1, 2)), 20.0, "two-piece step area")
# delay adapters
d = link([{"kind": "delay_fixed", "d": 30}])
eq(d.pull(20), (0.0,), "fixed delay clamped to the start")
eq(d.pull(60), nearest(pubs, 30), "fixed delay")
eq(link([{"kind": "delay_fixed", "d": 24}, {"kind": "delay_fixed", "d": 24}]).required_source_time(72), 24, "chained delays add up")
dp = link([{"kind": "delay_pull", "n": 2, "x": 0}])
seq = [dp.delay_time(0, t) or dp.hist[0].append(t) for t in ()]     # (no-op, keeps flake quiet)
got = []
for t in (24, 48, 72):
    got.append(dp.delay_time(0, t)); dp.pull(t)
eq(got, [0, 0, 24], "delay to the 2nd previous request (initial time while fewer requests exist)")
eq(link([{"kind": "linear"}, {"kind": "delay_fixed", "d": 5}]).required_source_time(30), 25, "delay downstream of a buffer relaxes")
eq(link([{"kind": "delay_fixed", "d": 5}, {"kind": "linear"}]).required_source_time(30), 30, "delay upstream of a buffer does not")
eq(link([{"kind": "delay_push"}]).required_source_time(30), None, "dependency breaking")
# units
eq(convert(20.0, "degC", "K"), 293.15, "offset units")
eq(convert(1.0, "mm/d", "m/s"), 0.001 / 86400, "rates")
# grids: ESRI raster: data[row 0] is the TOP row, x increases along columns
g = MGrid({"type": "esri", "ncols": 3, "nrows": 2, "cellsize": 1.0, "xll": 10.0, "yll": 5.0, "order": "C"})
eq(g.data_shape(), (2, 3), "esri shape rows x cols")
eq(g.coord((0, 0)), (10.5, 6.5), "esri top-left cell centre")
eq(g.coord((1, 2)), (12.5, 5.5), "esri bottom-right cell centre")
u = MGrid({"type": "uniform", "dims": [3, 2], "spacing": [1.0, 2.0], "origin": [0.0, 0.0], "order": "F", "rev": False,
           "inc": [True, False], "loc": "points"})
eq(u.data_shape(), (3, 2), "uniform points shape")
eq(u.coord((0, 0)), (0.0, 2.0), "decreasing y axis starts at the top")
eq([tuple(p) for p in u.flat_points()[:3]], [(0.0, 2.0), (1.0, 2.0), (2.0, 2.0)], "F order: x runs fastest")
print(f"model self-test: {ok} hand-computed cases ok")
