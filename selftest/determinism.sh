#!/bin/bash
# Determinism self-test: every check, N seeds, executed in fresh interpreters under two PYTHONHASHSEED values and two
# worker counts; the per-seed event-log digests must be identical.  usage: selftest/determinism.sh [N] [IDs...]
cd /verif
N=${1:-150}; shift
IDS=${@:-C01 C02 C03 C04 C05 C06 C07 C08 C09 C10 C11 C12 C13 C14 C15 C16 C17 C18 C19 C20}
rc=0
for id in $IDS; do
  n=$N; [ $id = C10 ] && n=$((N/5)); [ $id = C05 ] && n=$((N/2))
  PYTHONHASHSEED=0     timeout 600 ./check $id --digests $n --workers 16 --seed 7 > /tmp/det-$id-a.json 2>/dev/null
  PYTHONHASHSEED=12345 timeout 600 ./check $id --digests $n --workers 3  --seed 7 > /tmp/det-$id-b.json 2>/dev/null
  if cmp -s /tmp/det-$id-a.json /tmp/det-$id-b.json && [ -s /tmp/det-$id-a.json ]; then echo "$id deterministic over $n seeds (hashseed 0/16 workers vs hashseed 12345/3 workers)"; else echo "$id DIGEST MISMATCH"; rc=1; fi
done
exit $rc
